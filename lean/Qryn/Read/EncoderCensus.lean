import Qryn.Gen.ResponseWriters
import Qryn.Gen.C15Batch
/-! # The reviewed census of response writers, separator guards and batching constants under reader/ (C15)

`Gen.ResponseWriters` (regenerated from /repo on every run) lists every place under reader/ that writes (a piece of) a
response body — sends on `chan string` / `chan model.QueryRangeOutput`, `Write` on an `http.ResponseWriter`, websocket
messages, calls on a jsoniter `Stream` — one entry per (file, function, kind) with the pieces in source order; the
guards `if <counter> > 0 / != 0 { write a piece }` of those functions with every write to the counter; and
`Gen.C15Batch` the integer literals that size batches. This module holds the REVIEW: a `Class` per writer entry, the
expected guard list, a `Role` per constant. `Props/C15.lean` proves the regenerated lists equal to the reviewed ones, so
a NEW piecewise writer, a new piece in an existing writer, a counter that starts to be reset, or a new batching
constant breaks a theorem until it has been looked at (and, for a writer, modelled).

Core-only. -/
namespace Qryn.EncoderCensus

/-- how a place that writes response bytes is covered -/
inductive Class where
  /-- hand-written piecewise encoder with a chunk model (`Qryn.Encode`) and a `…_doc` / `…_chunks_concat_valid` theorem -/
  | modelled (model : String) (thm : String)
  /-- copies the chunks of a modelled service encoder to the client unchanged (`for str := range ch { w.Write(str) }`) -/
  | relay (producer : String)
  /-- the whole body is ONE call of a library marshaller (encoding/json, protojson, proto): trusted, not modelled -/
  | delegated (lib : String)
  /-- a complete literal document; `constant_docs_json` proves that it parses -/
  | constant
  /-- jsoniter calls without a loop or branch: the print of a fixed-shape document (`…_doc` theorem) -/
  | straightLine (thm : String)
  /-- not a body: elements handed to the modelled writer named -/
  | items (consumer : String)
  /-- the body of an error response or of an error path: outside the property (it quantifies over result rows) -/
  | errorBody (what : String)
  /-- a plain text by design -/
  | notJson (what : String)
  /-- not a response at all -/
  | notResponse (what : String)
  deriving DecidableEq, Repr

structure Entry where
  file : String
  fn : String
  kind : String
  pieces : List String
  cls : Class
  deriving DecidableEq, Repr

def Entry.site (e : Entry) : String × String × String × List String := (e.file, e.fn, e.kind, e.pieces)

/-- the review, in the translator's order (directory, file, function, kind) -/
def reviewed : List Entry := [
  ⟨"controller/miscController.go", "MiscController.Ready", "write",
    ["\"Internal Server Error\"", "\"OK\""],
    .notJson "readiness probe: the texts OK / Internal Server Error"⟩,
  ⟨"controller/miscController.go", "MiscController.Config", "write",
    ["\"Not supported\""],
    .notJson "the text Not supported"⟩,
  ⟨"controller/miscController.go", "MiscController.Rules", "write",
    ["`{\"data\": {\"groups\": []},\"status\": \"success\"}`"],
    .constant⟩,
  ⟨"controller/miscController.go", "MiscController.Metadata", "write",
    ["`{\"status\": \"success\",\"data\": {}}`"],
    .constant⟩,
  ⟨"controller/miscController.go", "MiscController.Buildinfo", "stream",
    ["WriteMore×1", "WriteObjectEnd×2", "WriteObjectField×3", "WriteObjectStart×2", "WriteString×2"],
    .straightLine "buildinfo_doc"⟩,
  ⟨"controller/miscController.go", "MiscController.Buildinfo", "write",
    ["stream.Buffer()"],
    .straightLine "buildinfo_doc"⟩,
  ⟨"controller/profController.go", "ProfController.RenderDiff", "write",
    ["json.NewEncoder.Encode(diff.FlamebearerProfileV1)"],
    .delegated "encoding/json Encoder.Encode of one struct"⟩,
  ⟨"controller/profController.go", "ProfController.writeResponse", "write",
    ["bData"],
    .delegated "protojson / proto Marshal of one message (defaultMarshaller)"⟩,
  ⟨"controller/profController.go", "defaultError", "write",
    ["strconv.Quote(message)"],
    .errorBody "Pyroscope error: the message in Go quote syntax (strconv.Quote), not JSON for control bytes; error path"⟩,
  ⟨"controller/promQueryLabelsController.go", "PromQueryLabelsController.PromLabels", "write",
    ["str"],
    .relay "QueryLabelsService.GenericLabelReq"⟩,
  ⟨"controller/promQueryLabelsController.go", "PromQueryLabelsController.LabelValues", "write",
    ["str"],
    .relay "QueryLabelsService.GenericLabelReq"⟩,
  ⟨"controller/promQueryLabelsController.go", "PromQueryLabelsController.Metadata", "write",
    ["`{\"status\": \"success\", \"data\": {}}`"],
    .constant⟩,
  ⟨"controller/promQueryLabelsController.go", "PromQueryLabelsController.Series", "write",
    ["str"],
    .relay "QueryLabelsService.series (through Series / PromSeries)"⟩,
  ⟨"controller/promQueryRangeController.go", "PromError", "stream",
    ["WriteMore×2", "WriteObjectEnd×1", "WriteObjectField×3", "WriteObjectStart×1", "WriteString×3"],
    .straightLine "promError_doc"⟩,
  ⟨"controller/promQueryRangeController.go", "PromError", "write",
    ["stream.Buffer()"],
    .straightLine "promError_doc"⟩,
  ⟨"controller/promQueryRangeController.go", "writeResponse", "stream",
    ["WriteArrayStart×1", "WriteMore×2", "WriteObjectField×4", "WriteObjectStart×2", "WriteString×2"],
    .modelled "preamble; scalarChunks / promVectorBody / promMatrixBody" "scalar_doc, promVector_chunks_concat_valid, promMatrix_chunks_concat_valid"⟩,
  ⟨"controller/promQueryRangeController.go", "writeResponse", "write",
    ["stream.Buffer()", "\"]}}\""],
    .modelled "preamble; scalarChunks / promVectorBody / promMatrixBody" "scalar_doc, promVector_chunks_concat_valid, promMatrix_chunks_concat_valid"⟩,
  ⟨"controller/promQueryRangeController.go", "writeScalar", "write",
    ["fmt.Sprintf(`%f, \"%s\"`, float64(val.T)/1000, strconv.FormatFloat(val.V, 'f', -1, 64))"],
    .modelled "scalarChunks" "scalar_doc"⟩,
  ⟨"controller/promQueryRangeController.go", "writeMatrix", "stream",
    ["WriteArrayEnd×2", "WriteArrayStart×2", "WriteFloat64×1", "WriteMore×4", "WriteObjectEnd×2", "WriteObjectField×3", "WriteObjectStart×2", "WriteString×2"],
    .modelled "promMatrixBody" "promMatrix_chunks_concat_valid"⟩,
  ⟨"controller/promQueryRangeController.go", "writeMatrix", "write",
    ["\",\"", "stream.Buffer()"],
    .modelled "promMatrixBody" "promMatrix_chunks_concat_valid"⟩,
  ⟨"controller/promQueryRangeController.go", "writeVector", "stream",
    ["WriteArrayEnd×1", "WriteArrayStart×1", "WriteFloat64×1", "WriteMore×3", "WriteObjectEnd×2", "WriteObjectField×3", "WriteObjectStart×2", "WriteString×2"],
    .modelled "promVectorBody" "promVector_chunks_concat_valid"⟩,
  ⟨"controller/promQueryRangeController.go", "writeVector", "write",
    ["\",\"", "stream.Buffer()"],
    .modelled "promVectorBody" "promVector_chunks_concat_valid"⟩,
  ⟨"controller/queryLabelsController.go", "QueryLabelsController.Labels", "write",
    ["str"],
    .relay "QueryLabelsService.GenericLabelReq"⟩,
  ⟨"controller/queryLabelsController.go", "QueryLabelsController.Values", "write",
    ["str"],
    .relay "QueryLabelsService.GenericLabelReq"⟩,
  ⟨"controller/queryLabelsController.go", "QueryLabelsController.Series", "write",
    ["str"],
    .relay "QueryLabelsService.series (through Series / PromSeries)"⟩,
  ⟨"controller/queryRangeController.go", "QueryRangeController.QueryRange", "write",
    ["str.Str"],
    .relay "QueryRangeService.QueryRange / exportStreamsValue"⟩,
  ⟨"controller/queryRangeController.go", "QueryRangeController.Query", "stream",
    ["WriteArrayEnd×2", "WriteArrayStart×2", "WriteEmptyObject×1", "WriteInt64×1", "WriteMore×4", "WriteObjectEnd×3", "WriteObjectField×6", "WriteObjectStart×3", "WriteString×3"],
    .straightLine "queryConst_doc"⟩,
  ⟨"controller/queryRangeController.go", "QueryRangeController.Query", "write",
    ["stream.Buffer()", "str.Str"],
    .relay "QueryRangeService.QueryInstant / exportStreamsValue; the first piece is the straight-line document queryConst_doc"⟩,
  ⟨"controller/queryRangeController.go", "QueryRangeController.Tail", "ws",
    ["WriteMessage(ws.TextMessage, `{\"streams\":[]}`)", "WriteMessage(ws.TextMessage, str.Str)"],
    .relay "QueryRangeService.Tail (one websocket message per frame); the literal is a constant document"⟩,
  ⟨"controller/tempoController.go", "TempoController.Trace", "write",
    ["bTraceData", "`{\"resourceSpans\": [{ \"resource\":{\"attributes\":[{\"key\":\"collector\",\"value\":{\"stringValue\":\"qryn\"}}]}, \"instrumentationLibrarySpans\": [{ \"spans\": [`", "\",\"", "res", "\"]}]}]}\""],
    .modelled "traceBody (JSON branch); the first piece is the protobuf branch: one proto.Marshal" "trace_chunks_concat_valid"⟩,
  ⟨"controller/tempoController.go", "TempoController.Echo", "write",
    ["\"echo\""],
    .notJson "the text echo"⟩,
  ⟨"controller/tempoController.go", "TempoController.Tags", "write",
    ["`{\"tagNames\": [`", "\",\"", "bTag", "\"]}\""],
    .modelled "tagsChunks" "tags_doc"⟩,
  ⟨"controller/tempoController.go", "TempoController.TagsV2", "write",
    ["bRes"],
    .delegated "encoding/json Marshal of one map"⟩,
  ⟨"controller/tempoController.go", "TempoController.ValuesV2", "write",
    ["bRes"],
    .delegated "encoding/json Marshal of one map"⟩,
  ⟨"controller/tempoController.go", "TempoController.Values", "write",
    ["`{\"tagValues\": [`", "\",\"", "bVal", "`]}`"],
    .modelled "tagValuesChunks" "tagValues_doc"⟩,
  ⟨"controller/tempoController.go", "TempoController.Search", "write",
    ["`{\"traces\": [`", "\",\"", "strTrace", "\"]}\"", "`{\"traces\": [`", "\",\"", "bTrace", "\"]}\""],
    .modelled "searchQLBody (TraceQL branch, batches), searchBody (legacy branch)" "searchQL_chunks_concat_valid, search_chunks_concat_valid"⟩,
  ⟨"controller/utils.go", "tamePanic", "write",
    ["\"Internal Server Error\""],
    .errorBody "recovered panic: status 500 and a text"⟩,
  ⟨"service/queryLabelsService.go", "QueryLabelsService.GenericLabelReq", "send",
    ["`{\"status\": \"success\",\"data\": [`", "\",\"", "string(qStrLbl)", "\"]}\""],
    .modelled "labelsChunks" "labels_doc, labels_chunks_concat_valid"⟩,
  ⟨"service/queryLabelsService.go", "QueryLabelsService.values", "send",
    ["\"{\\\"status\\\": \\\"success\\\",\\\"data\\\": []}\""],
    .constant⟩,
  ⟨"service/queryLabelsService.go", "QueryLabelsService.Series", "send",
    ["`{\"status\":\"success\", \"data\":[]}`"],
    .constant⟩,
  ⟨"service/queryLabelsService.go", "QueryLabelsService.series", "send",
    ["`{\"status\":\"success\", \"data\":[]}`", "`{\"status\":\"success\", \"data\":[`", "\",\"", "lbls", "`]}`"],
    .modelled "seriesChunks; the first literal is the constant document for requests == nil" "series_doc_partial, series_chunks_concat_valid"⟩,
  ⟨"service/queryRangeService.go", "onErr", "send",
    ["model.QueryRangeOutput{Str: \"]}}\", Err: err}"],
    .errorBody "closing pieces after an error entry (modelled in go as the .fail branch; outside the property)"⟩,
  ⟨"service/queryRangeService.go", "QueryRangeService.exportStreamsValue", "send",
    ["model.QueryRangeOutput{Str: string(stream.Buffer())}", "model.QueryRangeOutput{Str: string(stream.Buffer())}", "model.QueryRangeOutput{Str: string(stream.Buffer())}", "model.QueryRangeOutput{Str: string(stream.Buffer())}"],
    .modelled "streamsChunks" "streams_doc"⟩,
  ⟨"service/queryRangeService.go", "QueryRangeService.exportStreamsValue", "stream",
    ["WriteArrayEnd×4", "WriteArrayStart×3", "WriteMore×6", "WriteObjectEnd×4", "WriteObjectField×6", "WriteObjectStart×3", "WriteString×4"],
    .modelled "streamsChunks" "streams_doc"⟩,
  ⟨"service/queryRangeService.go", "QueryRangeService.QueryRange", "send",
    ["model.QueryRangeOutput{Str: string(stream.Buffer())}", "model.QueryRangeOutput{Str: string(stream.Buffer())}", "model.QueryRangeOutput{Str: string(stream.Buffer())}", "model.QueryRangeOutput{Str: string(stream.Buffer())}"],
    .modelled "matrixChunks" "matrix_doc"⟩,
  ⟨"service/queryRangeService.go", "QueryRangeService.QueryRange", "stream",
    ["WriteArrayEnd×4", "WriteArrayStart×3", "WriteMore×6", "WriteObjectEnd×4", "WriteObjectField×6", "WriteObjectStart×3", "WriteRaw×1", "WriteString×3"],
    .modelled "matrixChunks" "matrix_doc"⟩,
  ⟨"service/queryRangeService.go", "QueryRangeService.QueryInstant", "send",
    ["model.QueryRangeOutput{Str: string(stream.Buffer())}", "model.QueryRangeOutput{Str: string(stream.Buffer())}", "model.QueryRangeOutput{Str: string(stream.Buffer())}"],
    .modelled "vectorChunks" "vector_doc"⟩,
  ⟨"service/queryRangeService.go", "QueryRangeService.QueryInstant", "stream",
    ["WriteArrayEnd×2", "WriteArrayStart×2", "WriteInt64×1", "WriteMore×6", "WriteObjectEnd×4", "WriteObjectField×7", "WriteObjectStart×4", "WriteString×4"],
    .modelled "vectorChunks" "vector_doc"⟩,
  ⟨"service/queryRangeService.go", "QueryRangeService.Tail", "send",
    ["model.QueryRangeOutput{Str: string(stream.Buffer())}"],
    .modelled "tailFrame" "tail_doc"⟩,
  ⟨"service/queryRangeService.go", "QueryRangeService.Tail", "stream",
    ["WriteArrayEnd×4", "WriteArrayStart×3", "WriteMore×4", "WriteObjectEnd×3", "WriteObjectField×3", "WriteObjectStart×2", "WriteString×2"],
    .modelled "tailFrame" "tail_doc"⟩,
  ⟨"service/queryRangeService.go", "writeMap", "stream",
    ["WriteMore×1", "WriteObjectEnd×1", "WriteObjectField×1", "WriteObjectStart×1", "WriteString×1"],
    .modelled "labelsObj (print)" "streams_doc, matrix_doc, tail_doc"⟩,
  ⟨"service/tempoService.go", "TempoService.Tags", "send",
    ["k"],
    .items "TempoController.Tags / TagsV2"⟩,
  ⟨"service/tempoService.go", "TempoService.TagsV2", "send",
    ["value"],
    .items "TempoController.TagsV2"⟩,
  ⟨"service/tempoService.go", "TempoService.ValuesV2", "send",
    ["value"],
    .items "TempoController.ValuesV2"⟩,
  ⟨"service/tempoService.go", "TempoService.Values", "send",
    ["v"],
    .items "TempoController.Values / ValuesV2"⟩,
  ⟨"utils/shutdown/shutdown.go", "Shutdown", "send?",
    ["Chan <- code"],
    .notResponse "exit code sent to the shutdown channel"⟩

]

/-- the guards as reviewed: (file, function, condition, pieces written under it, every write to the counters compared
    with 0). A list-separator guard must read a counter that is initialised to 0 and then only incremented (`i++`) or set
    to 1 (`i = 1`), or the key of the `range` it stands in. The only counters that are reset are the per-object value
    counters `j` of the three series machines (`j = 0` when a new series object opens — the two-level machine `Encode.go`). -/
def reviewedGuards : List (String × String × String × String × List String) := [
  ("controller/promQueryRangeController.go", "writeMatrix", "i > 0", "\",\"",
    ["range key of val"]),
  ("controller/promQueryRangeController.go", "writeMatrix", "j > 0", "stream.WriteMore",
    ["range key of s.Metric", "range key of s.Points"]),
  ("controller/promQueryRangeController.go", "writeMatrix", "j > 0", "stream.WriteMore",
    ["range key of s.Metric", "range key of s.Points"]),
  ("controller/promQueryRangeController.go", "writeVector", "i > 0", "\",\"",
    ["range key of val"]),
  ("controller/promQueryRangeController.go", "writeVector", "j > 0", "stream.WriteMore",
    ["range key of s.Metric"]),
  ("controller/tempoController.go", "TempoController.Trace", "i != 0", "\",\"",
    ["i := 0", "i++"]),
  ("controller/tempoController.go", "TempoController.Tags", "i != 0", "\",\"",
    ["i := 0", "i++"]),
  ("controller/tempoController.go", "TempoController.Values", "i != 0", "\",\"",
    ["i := 0", "i++"]),
  ("controller/tempoController.go", "TempoController.Search", "i != 0", "\",\"",
    ["i := 0", "i++", "i := 0", "i++"]),
  ("controller/tempoController.go", "TempoController.Search", "i != 0", "\",\"",
    ["i := 0", "i++", "i := 0", "i++"]),
  ("service/queryLabelsService.go", "QueryLabelsService.GenericLabelReq", "i != 0", "\",\"",
    ["i := 0", "i++"]),
  ("service/queryLabelsService.go", "QueryLabelsService.series", "i != 0", "\",\"",
    ["i := 0", "i++"]),
  ("service/queryRangeService.go", "QueryRangeService.exportStreamsValue", "i == 0 || lastFp != e.Fingerprint", "stream.WriteObjectStart; stream.WriteObjectField; stream.WriteMore; stream.WriteObjectField; stream.WriteArrayStart",
    ["i := 0", "i = 1"]),
  ("service/queryRangeService.go", "QueryRangeService.exportStreamsValue", "i > 0", "stream.WriteArrayEnd; stream.WriteObjectEnd; stream.WriteMore; model.QueryRangeOutput{Str: string(stream.Buffer())}",
    ["i := 0", "i = 1"]),
  ("service/queryRangeService.go", "QueryRangeService.exportStreamsValue", "j > 0", "stream.WriteMore",
    ["j := 0", "j = 0", "j = 1"]),
  ("service/queryRangeService.go", "QueryRangeService.exportStreamsValue", "i > 0", "stream.WriteArrayEnd; stream.WriteObjectEnd",
    ["i := 0", "i = 1"]),
  ("service/queryRangeService.go", "QueryRangeService.QueryRange", "i == 0 || lastFp != e.Fingerprint", "stream.WriteObjectStart; stream.WriteObjectField; stream.WriteMore; stream.WriteObjectField; stream.WriteArrayStart",
    ["i := 0", "i = 1"]),
  ("service/queryRangeService.go", "QueryRangeService.QueryRange", "i > 0", "stream.WriteArrayEnd; stream.WriteObjectEnd; stream.WriteMore; model.QueryRangeOutput{Str: string(stream.Buffer())}",
    ["i := 0", "i = 1"]),
  ("service/queryRangeService.go", "QueryRangeService.QueryRange", "j > 0", "stream.WriteMore",
    ["j := 0", "j = 0", "j = 1"]),
  ("service/queryRangeService.go", "QueryRangeService.QueryRange", "i > 0", "stream.WriteArrayEnd; stream.WriteObjectEnd",
    ["i := 0", "i = 1"]),
  ("service/queryRangeService.go", "QueryRangeService.QueryInstant", "i > 0", "stream.WriteMore",
    ["i := 0", "i++"]),
  ("service/queryRangeService.go", "QueryRangeService.QueryInstant", "j > 0", "stream.WriteMore",
    ["j := 0", "j++"]),
  ("service/queryRangeService.go", "QueryRangeService.Tail", "i == 0 || lastFp != e.Fingerprint", "stream.WriteObjectStart; stream.WriteObjectField; stream.WriteMore; stream.WriteObjectField; stream.WriteArrayStart",
    ["i := 0", "i = 1"]),
  ("service/queryRangeService.go", "QueryRangeService.Tail", "i > 0", "stream.WriteArrayEnd; stream.WriteObjectEnd; stream.WriteMore",
    ["i := 0", "i = 1"]),
  ("service/queryRangeService.go", "QueryRangeService.Tail", "j > 0", "stream.WriteMore",
    ["j := 0", "j = 0", "j = 1"]),
  ("service/queryRangeService.go", "QueryRangeService.Tail", "i > 0", "stream.WriteArrayEnd; stream.WriteObjectEnd",
    ["i := 0", "i = 1"]),
  ("service/queryRangeService.go", "writeMap", "i > 0", "stream.WriteMore",
    ["i := 0", "i++"])
]

/-- the role of an integer literal -/
inductive Role where
  /-- size of the batches in which entries reach an encoder: the generators put size classes around it -/
  | inputBatch (what : String)
  | capacity (what : String)
  | limit (what : String)
  | other (what : String)
  deriving DecidableEq, Repr

def reviewedConsts : List ((String × String × String × Nat) × Role) := [
  (("controller/tempoController.go", "TempoController.Trace", "make(map[string]*v1.ResourceSpans, 100)", 100), .capacity "capacity hint of a slice / map"),
  (("controller/tempoController.go", "TempoController.Trace", "make([]*v1.Span, 0, 10)", 10), .capacity "capacity hint of a slice / map"),
  (("controller/tempoController.go", "TempoController.Trace", "make([]*v1.ResourceSpans, 0, 10)", 10), .capacity "capacity hint of a slice / map"),
  (("controller/tempoController.go", "TempoController.TagsV2", "limit > 2000", 2000), .limit "clamp of the request parameter limit"),
  (("controller/tempoController.go", "TempoController.ValuesV2", "limit > 2000", 2000), .limit "clamp of the request parameter limit"),
  (("logql/logql_transpiler_v2/planner_from_fix.go", "FixPeriodPlanner.Process", "(_to-_from)/step >= maxFixPeriodPoints", 10000000), .limit "refusal threshold (C12)"),
  (("logql/logql_transpiler_v2/internal_planner/planner_fingerprint_optimizer.go", "ResponseOptimizerPlanner.Process", "size < 3000", 3000), .inputBatch "entries collected by ResponseOptimizerPlanner before it sends one batch per fingerprint"),
  (("logql/logql_transpiler_v2/internal_planner/planner_generic_aggregator.go", "AggregatorPlanner.process", "streamLen > 4000000000", 4000000000), .limit "refusal threshold (C12)"),
  (("logql/logql_transpiler_v2/internal_planner/planner_generic_aggregator.go", "AggregatorPlanner.process", "len(res) >= 2000", 2000), .inputBatch "entries per batch sent by the in-process aggregator"),
  (("logql/logql_transpiler_v2/internal_planner/planner_line_format.go", "LineFormatterPlanner.Process", "make([]shared.LogEntry, 0, 100)", 100), .capacity "capacity hint of a slice / map"),
  (("logql/logql_transpiler_v2/shared/planner_clickhouse_getter.go", "ClickhouseGetterPlanner.Scan", "make([]LogEntry, 100)", 100), .inputBatch "entries per batch handed to the response encoders (Scan / ScanMatrix: buffer size and flush threshold)"),
  (("logql/logql_transpiler_v2/shared/planner_clickhouse_getter.go", "ClickhouseGetterPlanner.Scan", "i >= 100", 100), .inputBatch "entries per batch handed to the response encoders (Scan / ScanMatrix: buffer size and flush threshold)"),
  (("logql/logql_transpiler_v2/shared/planner_clickhouse_getter.go", "ClickhouseGetterPlanner.Scan", "make([]LogEntry, 100)", 100), .inputBatch "entries per batch handed to the response encoders (Scan / ScanMatrix: buffer size and flush threshold)"),
  (("logql/logql_transpiler_v2/shared/planner_clickhouse_getter.go", "ClickhouseGetterPlanner.ScanMatrix", "make([]LogEntry, 100)", 100), .inputBatch "entries per batch handed to the response encoders (Scan / ScanMatrix: buffer size and flush threshold)"),
  (("logql/logql_transpiler_v2/shared/planner_clickhouse_getter.go", "ClickhouseGetterPlanner.ScanMatrix", "i >= 100", 100), .inputBatch "entries per batch handed to the response encoders (Scan / ScanMatrix: buffer size and flush threshold)"),
  (("logql/logql_transpiler_v2/shared/planner_clickhouse_getter.go", "ClickhouseGetterPlanner.ScanMatrix", "make([]LogEntry, 100)", 100), .inputBatch "entries per batch handed to the response encoders (Scan / ScanMatrix: buffer size and flush threshold)"),
  (("service/tempoService.go", "TempoService.Values", "len(tag) >= 10", 10), .other "length of the prefix resource."),
  (("traceql/transpiler/complex_tags_v2_processor.go", "allTagsV2RequestProcessor.Process", "make(chan []string, 2)", 2), .capacity "channel buffer"),
  (("traceql/transpiler/complex_values_v2_processor.go", "allValuesV2RequestProcessor.Process", "make(chan []string, 2)", 2), .capacity "channel buffer"),
  (("traceql/transpiler/simple_tags_v2_processor.go", "SimpleTagsV2RequestProcessor.Process", "make(chan []string, 2)", 2), .capacity "channel buffer")
]

/-- a write that puts a counter back to 0 after its initialisation -/
def isReset (w : String) : Bool := w.endsWith " = 0"

/-- functions whose guard `j > 0` legitimately reads a counter that is reset (per series object) -/
def twoLevel : List String := ["QueryRangeService.exportStreamsValue", "QueryRangeService.QueryRange", "QueryRangeService.Tail"]

end Qryn.EncoderCensus
