/-! Series cursor: model of `seriesIt.Next/Seek/At` in reader/model/prometheus.go
    (the `chunkenc.Iterator` handed to the PromQL engine by `model.Series.Iterator()`).

    * `step` — the code as it is after the repair of A32 (`fix: seriesIt.Seek …`): one call = one step of a
      state machine `It → Op → It × Out`. Go's `int` index is an `Int` (−1 before the first advance), the
      sample slice a `List`, every slice index expression is an `Option` lookup whose `none` is the Go
      run-time panic (`Out.fault`); the binary-search loop takes fuel (= slice length).
    * `stepW` — the code **as it was written** in the pinned tree (kept for the `decide`-checked
      counterexamples in `Props/C17.lean`).
    Core-only: the driver links this module. -/
namespace Qryn.Read.Cursor

/-- `model.Sample{TimestampMs, Value}`; the value is opaque to the cursor (the driver carries an integer id) -/
structure Sample where
  ts : Int
  v : Int
deriving DecidableEq, Repr, Inhabited

/-- `seriesIt{samples, idx}` -/
structure It where
  samples : List Sample
  idx : Int
deriving DecidableEq, Repr

/-- `(&Series{Samples: ss}).Iterator()` -/
def init (ss : List Sample) : It := ⟨ss, -1⟩

inductive Op
  | next
  | seek (t : Int)
  | at
deriving DecidableEq, Repr

inductive Out
  | bool (b : Bool)
  | sample (s : Sample)
  | fault                     -- index out of range panic
deriving DecidableEq, Repr

/-- timestamp under index `i` (0 outside the slice; only used in statements, never by the code model) -/
def tsAt (ss : List Sample) (i : Nat) : Int := (ss.getD i ⟨0, 0⟩).ts

/-! ## the code after the fix -/

/-- `for u > l { idx := (u+l)/2; if samples[idx].TimestampMs < t { l = idx+1; continue }; u = idx }`
    returns the final `l`; `none` = an index expression faulted. -/
def loop (ss : List Sample) (t : Int) : Nat → Nat → Nat → Option Nat
  | 0, l, _ => some l
  | fuel + 1, l, u =>
    if u > l then
      let m := (u + l) / 2
      match ss[m]? with
      | none => none
      | some s => if s.ts < t then loop ss t fuel (m + 1) u else loop ss t fuel l m
    else some l

/-- `func (s *seriesIt) Seek(t int64) bool` -/
def seek (it : It) (t : Int) : It × Out :=
  let l := it.idx.toNat                              -- l := s.idx; if l < 0 { l = 0 }
  let u := it.samples.length
  let search : It × Out :=
    match loop it.samples t u l u with
    | none => (it, .fault)
    | some r => ({ it with idx := (r : Int) }, .bool (decide (r < u)))   -- s.idx = l; return s.idx < len
  if l < u then
    match it.samples[l]? with                        -- if l < u && t <= s.samples[l].TimestampMs
    | none => (it, .fault)
    | some s => if t ≤ s.ts then ({ it with idx := (l : Int) }, .bool true) else search
  else search

/-- `func (s *seriesIt) Next() bool { s.idx++; return s.idx < len(s.samples) }` -/
def next (it : It) : It × Out :=
  ({ it with idx := it.idx + 1 }, .bool (decide (it.idx + 1 < (it.samples.length : Int))))

/-- `func (s *seriesIt) At() (int64, float64)`: `s.samples[s.idx]` -/
def at_ (it : It) : It × Out :=
  if it.idx < 0 then (it, .fault)
  else match it.samples[it.idx.toNat]? with
    | none => (it, .fault)
    | some s => (it, .sample s)

def step (it : It) : Op → It × Out
  | .next => next it
  | .seek t => seek it t
  | .at => at_ it

/-- a whole call sequence: final state and the outputs in call order -/
def run (it : It) : List Op → It × List Out
  | [] => (it, [])
  | op :: ops =>
    let (it', o) := step it op
    let (it'', os) := run it' ops
    (it'', o :: os)

/-- the state reached from the fresh iterator after `ops` -/
def after (ss : List Sample) (ops : List Op) : It := (run (init ss) ops).1

/-! ## the code as it was written (pinned tree) -/

/-- the loop as written: `(l, lastProbe)`; the `==` probe exits early -/
def loopW (ss : List Sample) (t : Int) : Nat → Nat → Nat → Nat → Option (Nat × Nat)
  | 0, l, _, idx => some (l, idx)
  | fuel + 1, l, u, idx =>
    if u > l then
      let m := (u + l) / 2
      match ss[m]? with
      | none => none
      | some s =>
        if s.ts = t then some (m, m)                         -- l = idx; break
        else if s.ts < t then loopW ss t fuel (m + 1) u m    -- l = idx + 1; continue
        else loopW ss t fuel l m m                           -- u = idx
    else some (l, idx)

/-- `Seek` as written: faults on `s.samples[0]` for an empty slice, ignores the current position, and
    ends with `s.idx = idx` (the last probe) -/
def seekW (it : It) (t : Int) : It × Out :=
  match it.samples[0]? with
  | none => (it, .fault)
  | some s0 =>
    if t ≤ s0.ts then ({ it with idx := 0 }, .bool true)
    else match loopW it.samples t it.samples.length 0 it.samples.length 0 with
      | none => (it, .fault)
      | some (_, idx) => ({ it with idx := (idx : Int) }, .bool (decide (idx < it.samples.length)))

def stepW (it : It) : Op → It × Out
  | .next => next it
  | .seek t => seekW it t
  | .at => at_ it

def runW (it : It) : List Op → It × List Out
  | [] => (it, [])
  | op :: ops =>
    let (it', o) := stepW it op
    let (it'', os) := runW it' ops
    (it'', o :: os)

/-! ## the contract in executable form (linear scan; reference for the refinement theorem) -/

/-- first index `≥ p` whose timestamp is `≥ t`, or the length -/
def lowerBoundFrom (ss : List Sample) (p : Nat) (t : Int) : Nat :=
  p + ((ss.drop p).takeWhile (fun s => decide (s.ts < t))).length

end Qryn.Read.Cursor
