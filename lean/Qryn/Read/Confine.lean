import Qryn.Sql.Sem
import Qryn.Base.Time
/-! C13: a structural predicate `confined` on statements — every scan of a base table carries bounds that
    confine it to the requested window (data tables: timestamp bounds; index tables: a date range covering
    the window, or a restriction to fingerprints selected by a confined scan) and, for the Loki sample and
    index tables, the signal-type filter — together with its soundness with respect to `Sql.evalBody`. -/
namespace Qryn.Confine
open Qryn Qryn.Sql

inductive TableKind | data | index | other
deriving DecidableEq, Repr

/-- strip "`db`." and a trailing `_dist` (cluster layout of `PopulateTableNames`) -/
def baseName (t : String) : String :=
  let t := match t.splitOn "`." with
    | [_, rest] => rest
    | _ => t
  if t.endsWith "_dist" then (t.dropEnd 5).toString else t

/-- which tables hold timestamped data and which are per-day indexes (names from `Gen.Tables`) -/
def tableKind (dataTables indexTables : List String) (t : String) : TableKind :=
  let n := baseName t
  if dataTables.contains n then .data else if indexTables.contains n then .index else .other

structure Window where
  fromNs : Int
  toNs : Int
  slackNs : Int        -- allowed widening of data scans (range bucket / 15 s storage step); 0 for log queries
  needType : Bool      -- Loki sample/index scans must carry the type filter
  tp : Int             -- the type the API asks for (1 logs, 2 metrics); 0 is always admitted besides
deriving Repr

/-- top-level conjuncts of a condition -/
def conjuncts : Option Expr → List Expr
  | none => []
  | some (.logical "and" cs) => cs
  | some e => [e]

def isTsCol (s : String) : Bool := s = "timestamp_ns" || s.endsWith ".timestamp_ns"
def isDateCol (s : String) : Bool := s = "date" || s.endsWith ".date"
def isFpCol (s : String) : Bool := s = "fingerprint" || s.endsWith ".fingerprint"

/-- a lower timestamp bound not below `from − slack` -/
def isLowerTs (w : Window) : Expr → Bool
  | .logical ">=" [.raw c, .int f] => isTsCol c && decide (w.fromNs - w.slackNs ≤ f)
  | .logical ">" [.raw c, .int f] => isTsCol c && decide (w.fromNs - w.slackNs - 1 ≤ f)
  | _ => false
/-- an upper timestamp bound not above `to + slack` -/
def isUpperTs (w : Window) : Expr → Bool
  | .logical "<" [.raw c, .int t] => isTsCol c && decide (t ≤ w.toNs + w.slackNs)
  | .logical "<=" [.raw c, .int t] => isTsCol c && decide (t ≤ w.toNs + w.slackNs)
  | _ => false
def isTypeFilter (w : Window) : Expr → Bool
  | .isIn (.raw "type") [.int a, .int 0] => a == w.tp
  | _ => false

/-- date bounds of an index scan as (lower?, upper?) literals -/
def dateLower : Expr → Option Bytes
  | .logical ">=" [.raw c, .str d] => if isDateCol c then some d else none
  | .logical ">=" [.raw c, .call "toDate" [.str d]] => if isDateCol c then some d else none
  | _ => none
def dateUpper : Expr → Option Bytes
  | .logical "<=" [.raw c, .str d] => if isDateCol c then some d else none
  | .logical "<=" [.raw c, .call "toDate" [.str d]] => if isDateCol c then some d else none
  | _ => none

/-- a comparison on a date column -/
def mentionsDate : Expr → Bool
  | .logical _ [.raw c, _] => isDateCol c
  | _ => false

/-- Unix second of a nanosecond instant -/
def secOf (ns : Int) : Int := ns / 1000000000
/-- day number (days since 1970-01-01, UTC) of a nanosecond instant -/
def dayOfNs (ns : Int) : Int := secOf ns / 86400

/-- The instants whose UTC date a lower date bound may be rendered from: start − 30 min (`FormatFromDate`)
    or the start itself. Calendar rendering (`Time.formatDate`) is validated against `time.Format`
    exhaustively by the correspondence, not proved; what is proved is that the DAY of either instant is
    not after the day of any instant of the window (`C13.date_lower_covers`). -/
def lowerInstants (w : Window) : List Int := [secOf w.fromNs - 1800, secOf w.fromNs]
/-- … and an upper date bound: the end of the window, or its last nanosecond -/
def upperInstants (w : Window) : List Int := [secOf w.toNs, secOf (w.toNs - 1)]
/-- restriction to the fingerprints of an earlier sub-query -/
def fpIn : Expr → Option Alias
  | .isIn (.raw c) [.withRef a] => if isFpCol c then some a else none
  | _ => none

structure Cfg where
  dataTables : List String
  indexTables : List String
  typedTables : List String      -- tables that have a `type` column (Loki samples, metrics_15s, time_series, time_series_gin)

def fromTable : Option Expr → Option String
  | some (.raw t) => some t
  | some (.col (.raw t) _) => some t
  | _ => none

/-- One SELECT is confined, given the aliases already known to be confined index selections (`okFp`). -/
def bodyConfined (cfg : Cfg) (w : Window) (okFp : List Alias) : Sel → Bool
  | .mk _ _ _ from_ _ pre wher _ _ _ _ =>
    match fromTable from_ with
    | none => true                       -- reads a sub-query (or nothing): confined by induction
    | some t =>
      let cs := conjuncts pre ++ conjuncts wher
      let typed := !(w.needType && cfg.typedTables.contains (baseName t)) || cs.any (isTypeFilter w)
      match tableKind cfg.dataTables cfg.indexTables t with
      | .data => cs.any (isLowerTs w) && cs.any (isUpperTs w) && typed
      | .index =>
        -- (a) a date range that covers the window, with the type filter; or (b) only fingerprints of a confined selection
        let lowerOk := cs.any (fun e => match dateLower e with
          | some d => (lowerInstants w).any (fun t => Time.formatDate t == d) | none => false)
        let upperOk := cs.all (fun e => match dateUpper e with
          | some d => (upperInstants w).any (fun t => Time.formatDate t == d)
          | none => !mentionsDate e || (dateLower e).isSome)   -- any other comparison on the date is rejected
        (lowerOk && upperOk && typed) || cs.any (fun e => match fpIn e with | some a => okFp.contains a | none => false)
      | .other => true

/-- a sub-query yields fingerprints of a confined index selection: it is itself a confined scan of an index table -/
def isIndexSelection (cfg : Cfg) : Sel → Bool
  | .mk _ _ _ from_ _ _ _ _ _ _ _ =>
    match fromTable from_ with
    | some t => tableKind cfg.dataTables cfg.indexTables t == .index
    | none => false

def withsConfined (cfg : Cfg) (w : Window) : List Alias → List (Alias × Sel) → Bool
  | _, [] => true
  | ok, (a, s) :: rest =>
    bodyConfined cfg w ok s && withsConfined cfg w (if isIndexSelection cfg s then a :: ok else ok) rest

def okAfter (cfg : Cfg) : List Alias → List (Alias × Sel) → List Alias
  | ok, [] => ok
  | ok, (a, s) :: rest => okAfter cfg (if isIndexSelection cfg s then a :: ok else ok) rest

/-- every scan of the statement is confined -/
def confined (cfg : Cfg) (w : Window) : Sel → Bool
  | .mk ws d c f j p wh g h ob l =>
    withsConfined cfg w [] ws && bodyConfined cfg w (okAfter cfg [] ws) (.mk ws d c f j p wh g h ob l)

end Qryn.Confine
