import Qryn.Sql.Sem
import Qryn.Base.Time
/-! C13: a structural predicate `confined` on statements — every scan of a base table carries bounds that
    confine it to the requested window (data tables: timestamp bounds; index tables: a date range covering
    the window, or a restriction to fingerprints selected by a confined scan) and, for the Loki sample and
    index tables, the signal-type filter — together with its soundness with respect to `Sql.evalBody`. -/
namespace Qryn.Confine
open Qryn Qryn.Sql

inductive TableKind | data | index | other
deriving DecidableEq, Repr

/-- strip "`db`." and a trailing `_dist` (cluster layout of `PopulateTableNames`) -/
def baseName (t : String) : String :=
  let t := match t.splitOn "`." with
    | [_, rest] => rest
    | _ => t
  if t.endsWith "_dist" then (t.dropEnd 5).toString else t

/-- which tables hold timestamped data and which are per-day indexes (names from `Gen.Tables`),
    for both table layouts: the classification the driver uses -/
def tableKindOf (dataTables indexTables : List String) (t : String) : TableKind :=
  let n := baseName t
  if dataTables.contains n then .data else if indexTables.contains n then .index else .other

structure Window where
  fromNs : Int
  toNs : Int
  slackNs : Int        -- allowed widening of data scans (range bucket / 15 s storage step); 0 for log queries
  needType : Bool      -- Loki sample/index scans must carry the type filter
  tp : Int             -- the type the API asks for (1 logs, 2 metrics); 0 is always admitted besides
deriving Repr

/-- top-level conjuncts of a condition -/
def conjuncts1 : Option Expr → List Expr
  | none => []
  | some (.logical "and" cs) => cs
  | some e => [e]

def splice : Expr → List Expr
  | .logical "and" cs => cs
  | e => [e]

/-- conjuncts, looking through one nested `and` (`AndWhere(sql.And(…))`) -/
def conjuncts (c : Option Expr) : List Expr := (conjuncts1 c).flatMap splice

/-- column references the planners write (explicit lists: an unknown spelling fails closed) -/
def isTsCol (s : String) : Bool :=
  ["timestamp_ns", "samples.timestamp_ns", "traces_idx.timestamp_ns", "time_series.timestamp_ns", "traces.timestamp_ns", "p.timestamp_ns"].contains s
def isDateCol (s : String) : Bool := ["date", "time_series.date", "traces_idx.date"].contains s
def isFpCol (s : String) : Bool := ["fingerprint", "samples.fingerprint", "time_series.fingerprint"].contains s

/-- a lower timestamp bound not below `from − slack` -/
def isLowerTs (w : Window) : Expr → Bool
  | .logical ">=" [.raw c, .int f] => isTsCol c && decide (w.fromNs - w.slackNs ≤ f)
  | .logical ">" [.raw c, .int f] => isTsCol c && decide (w.fromNs - w.slackNs - 1 ≤ f)
  | _ => false
/-- an upper timestamp bound not above `to + slack` -/
def isUpperTs (w : Window) : Expr → Bool
  | .logical "<" [.raw c, .int t] => isTsCol c && decide (t ≤ w.toNs + w.slackNs)
  | .logical "<=" [.raw c, .int t] => isTsCol c && decide (t ≤ w.toNs + w.slackNs)
  | _ => false
def isTypeFilter (w : Window) : Expr → Bool
  | .isIn (.raw "type") [.int a, .int 0] => a == w.tp
  | _ => false

/-- date bounds of an index scan as (lower?, upper?) literals -/
def dateLower : Expr → Option Bytes
  | .logical ">=" [.raw c, .str d] => if isDateCol c then some d else none
  | .logical ">=" [.raw c, .call "toDate" [.str d]] => if isDateCol c then some d else none
  | _ => none
def dateUpper : Expr → Option Bytes
  | .logical "<=" [.raw c, .str d] => if isDateCol c then some d else none
  | .logical "<=" [.raw c, .call "toDate" [.str d]] => if isDateCol c then some d else none
  | _ => none

/-- a comparison on a date column -/
def mentionsDate : Expr → Bool
  | .logical fn cs => fn != "and" && fn != "or" && (match cs with | [.raw c, _] => isDateCol c | _ => false)
  | _ => false

/-- Unix second of a nanosecond instant -/
def secOf (ns : Int) : Int := ns / 1000000000
/-- day number (days since 1970-01-01, UTC) of a nanosecond instant -/
def dayOfNs (ns : Int) : Int := secOf ns / 86400

/-- The instants whose UTC date a lower date bound may be rendered from: start − 30 min (`FormatFromDate`)
    or the start itself. Calendar rendering (`Time.formatDate`) is validated against `time.Format`
    exhaustively by the correspondence, not proved; what is proved is that the DAY of either instant is
    not after the day of any instant of the window (`C13.date_lower_covers`). -/
def lowerInstants (w : Window) : List Int := [secOf w.fromNs - 1800, secOf w.fromNs]
/-- … and an upper date bound: the end of the window, or its last nanosecond -/
def upperInstants (w : Window) : List Int := [secOf w.toNs, secOf (w.toNs - 1)]
/-- restriction to the fingerprints of an earlier sub-query -/
def fpIn : Expr → Option Alias
  | .isIn (.raw c) [.withRef a] => if isFpCol c then some a else none
  | _ => none

/-- `x IN (alias)` / `(x, y) IN (alias)` on id columns of the traces table -/
def idIn : Expr → Option Alias
  | .isIn (.raw c) [.withRef a] => if c = "trace_id" ∨ c = "traces.trace_id" ∨ c = "(traces.trace_id, traces.span_id)" then some a else none
  | _ => none

/-- classification of table names; the theorems hold for every classification (hypotheses say what they
    need of it), the driver uses `tableKindOf` over the regenerated `Gen.Tables` -/
structure Cfg where
  kind : String → TableKind
  typed : String → Bool          -- tables that have a `type` column (Loki samples, metrics_15s, time_series, time_series_gin)
  byId : String → Bool := fun _ => false   -- data tables whose rows may instead be reached through ids selected by a confined scan (traces)

def fromTable : Option Expr → Option String
  | some (.raw t) => some t
  | some (.col (.raw t) _) => some t
  -- `FROM t [as a] array JOIN arr` (the Pyroscope series planners un-nest a column of the table they scan)
  | some (.arrayJoin (.raw t) _) => some t
  | some (.arrayJoin (.col (.raw t) _) _) => some t
  | _ => none

/-- One SELECT is confined, given the aliases already known to be confined index selections (`okFp`). -/
def bodyConfined (cfg : Cfg) (w : Window) (okFp : List Alias) : Sel → Bool
  | .mk _ _ _ from_ _ pre wher _ _ _ _ =>
    match fromTable from_ with
    | none => true                       -- reads a sub-query (or nothing): confined by induction
    | some t =>
      let cs := conjuncts pre ++ conjuncts wher
      let typed := !(w.needType && cfg.typed t) || cs.any (isTypeFilter w)
      match cfg.kind t with
      | .data => (cs.any (isLowerTs w) && cs.any (isUpperTs w) && typed) ||
          (cfg.byId t && cs.any (fun e => match idIn e with | some a => okFp.contains a | none => false))
      | .index =>
        -- every comparison on the date column must be an acceptable bound (never tighter than the window);
        -- and the scan is anchored either (a) by a lower date bound plus the type filter, or (b) by a
        -- restriction to the fingerprints of a confined index selection
        let datesOk := cs.all (fun e =>
          !mentionsDate e ||
          (match dateLower e with
           | some d => (lowerInstants w).any (fun t => Time.formatDate t == d)
           | none => match dateUpper e with
             | some d => (upperInstants w).any (fun t => Time.formatDate t == d)
             | none => false))
        let lowerOk := cs.any (fun e => (dateLower e).isSome)
        datesOk && ((lowerOk && typed) || cs.any (fun e => match fpIn e with | some a => okFp.contains a | none => false))
      | .other => true

/-- a sub-query yields ids (fingerprints, trace ids) of a confined selection: it is itself a scan of a base
    table, and every scan is required to be confined -/
def isIndexSelection (cfg : Cfg) : Sel → Bool
  | .mk _ _ _ from_ _ _ _ _ _ _ _ =>
    match fromTable from_ with
    | some t => cfg.kind t == .index || cfg.kind t == .data   -- (every such select is itself required to be confined)
    | none => false

/-- … or it only re-shapes such a selection: it reads from an alias already known to be one, or un-nests an
    array column of such an alias (`FROM a ARRAY JOIN a.span_id AS …`: every row comes from a row of `a`) -/
def derivesFrom (ok : List Alias) : Sel → Bool
  | .mk _ _ _ (some (.withRef a)) _ _ _ _ _ _ _ => ok.contains a
  | .mk _ _ _ (some (.arrayJoin (.withRef a) _)) _ _ _ _ _ _ _ => ok.contains a
  | _ => false

def withsConfined (cfg : Cfg) (w : Window) : List Alias → List (Alias × Sel) → Bool
  | _, [] => true
  | ok, (a, s) :: rest =>
    bodyConfined cfg w ok s && withsConfined cfg w (if isIndexSelection cfg s || derivesFrom ok s then a :: ok else ok) rest

def okAfter (cfg : Cfg) : List Alias → List (Alias × Sel) → List Alias
  | ok, [] => ok
  | ok, (a, s) :: rest => okAfter cfg (if isIndexSelection cfg s || derivesFrom ok s then a :: ok else ok) rest

/-- operands of a set operation in FROM -/
def fromSetop : Option Expr → List Sel
  | some (.col (.setOp _ ss) _) => ss
  | some (.setOp _ ss) => ss
  | _ => []

/-- every scan of the statement is confined -/
def confined (cfg : Cfg) (w : Window) : Sel → Bool
  | .mk ws d c f j p wh g h ob l =>
    withsConfined cfg w [] ws && bodyConfined cfg w (okAfter cfg [] ws) (.mk ws d c f j p wh g h ob l)

/-! ### statements with set operations in FROM (TraceQL `&&` / `||`): every operand, a statement with its own
    WITH list, must be confined, and a select over operands that each yield ids of a confined selection yields
    such ids itself. Used by the driver on dumped statements; fuel bounds the nesting. -/
def withsOf : Sel → List (Alias × Sel)
  | .mk ws _ _ _ _ _ _ _ _ _ _ => ws
def fromOf : Sel → Option Expr
  | .mk _ _ _ f _ _ _ _ _ _ _ => f

mutual
/-- the statement's result is (derived from) a confined index selection -/
def yieldsOk (cfg : Cfg) : Nat → List Alias → Sel → Bool
  | 0, _, _ => false
  | fuel + 1, ok, s =>
    let ok' := okDeep cfg fuel ok (withsOf s)
    isIndexSelection cfg s || derivesFrom ok' s ||
      (!(fromSetop (fromOf s)).isEmpty && allYield cfg fuel (fromSetop (fromOf s)))
def allYield (cfg : Cfg) : Nat → List Sel → Bool
  | _, [] => true
  | 0, _ => false
  | fuel + 1, s :: ss => yieldsOk cfg fuel [] s && allYield cfg fuel ss
def okDeep (cfg : Cfg) : Nat → List Alias → List (Alias × Sel) → List Alias
  | _, ok, [] => ok
  | 0, ok, _ => ok
  | fuel + 1, ok, (a, s) :: rest => okDeep cfg fuel (if yieldsOk cfg fuel ok s then a :: ok else ok) rest
end

mutual
def confinedDeep (cfg : Cfg) (w : Window) : Nat → Sel → Bool
  | 0, _ => false
  | fuel + 1, s =>
    withsDeep cfg w fuel [] (withsOf s) &&
    bodyConfined cfg w (okDeep cfg fuel [] (withsOf s)) s &&
    allDeep cfg w fuel (fromSetop (fromOf s))
def withsDeep (cfg : Cfg) (w : Window) : Nat → List Alias → List (Alias × Sel) → Bool
  | _, _, [] => true
  | 0, _, _ => false
  | fuel + 1, ok, (a, s) :: rest =>
    bodyConfined cfg w ok s && allDeep cfg w fuel (fromSetop (fromOf s)) &&
    withsDeep cfg w fuel (if yieldsOk cfg fuel ok s then a :: ok else ok) rest
def allDeep (cfg : Cfg) (w : Window) : Nat → List Sel → Bool
  | _, [] => true
  | 0, _ => false
  | fuel + 1, s :: ss => confinedDeep cfg w fuel s && allDeep cfg w fuel ss
end

end Qryn.Confine
