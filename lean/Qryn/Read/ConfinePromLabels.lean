import Qryn.Prom.LabelsSel
import Qryn.Read.Signal
/-! C13 for the statements of the Prometheus metadata endpoints (`Prom.PromStmt`): the predicates the driver evaluates. -/
namespace Qryn.Confine
open Qryn Qryn.Sql Qryn.Prom

/-- one select: `confined`; a main select over a union: every operand is a confined index scan on its own, and so is the
    main select (it is not excused by `fingerprint IN fp_sel`: it carries its own date range and type filter) -/
def promConfined (cfg : Cfg) (w : Window) : PromStmt → Bool
  | .single s => confined cfg w s
  | .union ops main => ops.all (fun s => bodyConfined cfg w [] s && isIndexSelection cfg s) && bodyConfined cfg w [] main

/-- … and every select of it restricts typed tables to the API's signal -/
def promSignal (cfg : Cfg) (tp : Int) : PromStmt → Bool
  | .single s => signalConfined cfg tp s
  | .union ops main => ops.all (bodySignal cfg tp []) && bodySignal cfg tp [] main

end Qryn.Confine
