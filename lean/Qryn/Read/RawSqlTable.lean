import Qryn.Read.RawSqlCensus
/-! The REVIEWED table of raw-SQL construction sites (C10): one entry per site of the regenerated inventory
    `Gen.RawSqlSites`, identified by the site's hash (file, function, kind, format string, every argument with its
    origin — written out in the comment in front of the entry), with its role and the class of each argument.
    Drafted by scripts/rawsql_draft.py + scripts/rawsql_review.py, reviewed against the source, committed;
    `raw_sql_census` demands that the regenerated inventory has exactly these hashes, file by file, in order. -/
namespace Qryn.RawSql.Table
open Qryn.RawSql Qryn.RawSql.Cls Qryn.RawSql.Role

/-! ### controller/profController.go -/
def f_controller_profController : List Entry := [
  -- ProfController.RenderDiff | sprintf | Missing required parameter: %s | param «range#1 []string{"leftQuery", "leftFrom", "leftUntil", "rightQuery", "rightFrom", "rightUntil"}»
  ⟨11294764454328675447, notSql, [other], ""⟩,
  -- ProfController.RenderDiff | sprintf | Invalid value for %s: %s | html.EscapeString(v[0].(string)) «»; html.EscapeString(strVal) «»
  ⟨2452316768837923092, notSql, [other, other], ""⟩
]
/-! ### controller/promQueryRangeController.go -/
def f_controller_promQueryRangeController : List Entry := [
  -- writeScalar | sprintf | %f, "%s" | float64(val.T) / 1000 «»; strconv.FormatFloat(val.V, 'f', -1, 64) «»
  ⟨998832220663622593, notSql, [other, other], ""⟩
]
/-! ### controller/tempoController.go -/
def f_controller_tempoController : List Entry := [
  -- TempoController.TagsV2 | sprintf | Invalid timestamp for %s: %v | req[0].(string) «»; err «var | #1 of RunPreRequestPlugins(r) | #1 of strconv.ParseInt(strT, 10, 64) | #1 of strconv.Atoi(r.URL.Query().Get("limit")) | #1 of t.Service.Tags(internalCtx) | #1 of t.Service.TagsV2(internalCtx, q, timespan[0], timespan[1], limit) | #1 of json.Marshal(res)»
  ⟨13448204111540656867, notSql, [other, other], ""⟩,
  -- TempoController.ValuesV2 | sprintf | Invalid timestamp for %s: %v | req[0].(string) «»; err «var | #1 of RunPreRequestPlugins(r) | #1 of strconv.ParseInt(strT, 10, 64) | #1 of strconv.Atoi(r.URL.Query().Get("limit")) | #1 of t.Service.Values(internalCtx, tag) | #1 of t.Service.ValuesV2(internalCtx, tag, q, timespan[0], timespan[1], limit) | #1 of json…»
  ⟨18039921121661922191, notSql, [other, other], ""⟩
]
/-! ### dbRegistry/registry.go -/
def f_dbRegistry_registry : List Entry := [
  -- initDataDBSession | sprintf | Connecting to [%s, %s, %s, %s, %d, %d, %d]\n | dbObject.Host «»; dbObject.User «»; dbObject.Name «»; dbObject.Node «»; dbObject.Port «»; dbObject.ReadTimeout «»; dbObject.WriteTimeout «»
  ⟨2515033239126352095, notSql, [other, other, other, other, other, other, other], ""⟩,
  -- initDataDBSession | sprintf | %s:%d | dbObject.Host «»; dbObject.Port «»
  ⟨8212883389890238794, notSql, [other, other], ""⟩
]
/-! ### logql/logql_parser/model_v2.go -/
def f_logql_logql_parser_model_v2 : List Entry := [
  -- StrSelector.String | sprintf | {%s}%s | strings.Join(sel, ",") «»; strings.Join(ppl, " ") «»
  ⟨7325491153150939074, notSql, [other, other], ""⟩,
  -- LineFilter.String | sprintf |  %s %s | l.Fn «»; l.Val.String() «»
  ⟨11011254855892898169, notSql, [other, other], ""⟩,
  -- SimpleLabelFilter.String | sprintf | %s %s  | s.Label «»; s.Fn «»
  ⟨5097890869169792138, notSql, [other, other], ""⟩,
  -- Parser.String | sprintf | | %s | p.Fn «»
  ⟨12763798335328383387, notSql, [other], ""⟩,
  -- Parser.String | sprintf | | %s %s | p.Fn «»; strings.Join(params, ", ") «»
  ⟨4709580703008632526, notSql, [other, other], ""⟩,
  -- ParserParam.String | sprintf | %s = %s | p.Label «»; p.Val.String() «»
  ⟨17589533210422385746, notSql, [other, other], ""⟩,
  -- LineFormat.String | sprintf | | line_format %s | f.Val.String() «»
  ⟨8887064639994824248, notSql, [other], ""⟩,
  -- LabelFormat.String | sprintf | | label_format %s | strings.Join(ops, ", ") «»
  ⟨9746849030536801336, notSql, [other], ""⟩,
  -- Unwrap.String | sprintf | | %s %s | u.Fn «»; u.Label.String() «»
  ⟨5596572741415912209, notSql, [other, other], ""⟩,
  -- Drop.String | sprintf | | %s %s | d.Fn «»; strings.Join(params, ",") «»
  ⟨16542557413240441102, notSql, [other, other], ""⟩,
  -- ByOrWithout.String | sprintf | %s (%s) | l.Fn «»; strings.Join(labels, ",") «»
  ⟨2457413943507397623, notSql, [other, other], ""⟩,
  -- MacrosOp.String | sprintf | %s(%s) | l.Name «»; strings.Join(params, ",") «»
  ⟨9023730243475351775, notSql, [other, other], ""⟩,
  -- TopK.String | sprintf | %s(%s, %s)%s | l.Fn «»; l.Param «»; fn «"" | l.LRAOrUnwrap.String() | l.AggOperator.String()»; cmp «"" | l.Comparison.String()»
  ⟨18035387191334959245, notSql, [other, other, other, other], ""⟩
]
/-! ### logql/logql_parser/parser.go -/
def f_logql_logql_parser_parser : List Entry := [
  -- ParseSeries | sprintf | {__name__="%s"%s | string(promExp[1]) «»; left «string(promExp[2]) | "," + left[1:] | "}"»
  ⟨11754585597044557771, notSql, [other, other], ""⟩
]
/-! ### logql/logql_transpiler_v2/clickhouse_planner/planner_by_without.go -/
def f_logql_logql_transpiler_v2_clickhouse_planner_planner_by_without : List Entry := [
  -- ByWithoutPlanner.processSimple | withalias |  | fmt.Sprintf("pre_by_without_%d", ctx.Id()) «»
  ⟨7835592588258724707, sql, [nested], ""⟩,
  -- ByWithoutPlanner.processSimple | sprintf | pre_by_without_%d | ctx.Id() «»
  ⟨175264659955489645, sql, [number], ""⟩,
  -- ByWithoutPlanner.processSimple | raw |  | withMain.GetAlias() + ".labels" «»
  ⟨4162306267151970992, sql, [alias], ""⟩,
  -- ByWithoutPlanner.processTSTable | withalias |  | fmt.Sprintf("labels_%d", ctx.Id()) «»
  ⟨9773021577183676119, sql, [nested], ""⟩,
  -- ByWithoutPlanner.processTSTable | sprintf | labels_%d | ctx.Id() «»
  ⟨1087450782141883157, sql, [number], ""⟩,
  -- ByWithoutPlanner.processTSTable | withalias |  | fmt.Sprintf("pre_without_%d", ctx.Id()) «»
  ⟨11478112901912720866, sql, [nested], ""⟩,
  -- ByWithoutPlanner.processTSTable | sprintf | pre_without_%d | ctx.Id() «»
  ⟨16926763340970841908, sql, [number], ""⟩,
  -- ByWithoutPlanner.processTSTable | simplecol |  | withLabels.GetAlias() + ".new_fingerprint" «»; "fingerprint" «const»
  ⟨13077759192622393116, sql, [alias, codeText], ""⟩,
  -- ByWithoutPlanner.processTSTable | simplecol |  | withMain.GetAlias() + ".timestamp_ns" «»; "timestamp_ns" «const»
  ⟨9352882326121425823, sql, [alias, codeText], ""⟩,
  -- ByWithoutPlanner.processTSTable | simplecol |  | withMain.GetAlias() + ".value" «»; "value" «const»
  ⟨11160597634071398693, sql, [alias, codeText], ""⟩,
  -- ByWithoutPlanner.processTSTable | simplecol |  | withLabels.GetAlias() + ".labels" «»; "labels" «const»
  ⟨9089413282667432921, sql, [alias, codeText], ""⟩,
  -- ByWithoutPlanner.processTSTable | jointype |  | joinType «"ANY LEFT " | "GLOBAL ANY LEFT "»
  ⟨5093687246116409664, sql, [codeText], ""⟩,
  -- ByWithoutPlanner.processTSTable | raw |  | withMain.GetAlias() + ".fingerprint" «»
  ⟨3292145119404124110, sql, [alias], ""⟩,
  -- ByWithoutPlanner.processTSTable | raw |  | withLabels.GetAlias() + ".fingerprint" «»
  ⟨4108842339348802392, sql, [alias], ""⟩,
  -- byWithoutFilterCol.String | stringer |  | 
  ⟨8747563789005451368, marker, [], ""⟩,
  -- byWithoutFilterCol.String | sprintf | mapFilter((k,v) -> 0, %s) | str «#0 of b.labelsCol.String(ctx, opts...)»
  ⟨8517416166567693917, sql, [rendered], ""⟩,
  -- byWithoutFilterCol.String | sprintf | mapFilter((k,v) -> k %s (%s), %s) | fn «"IN" | "NOT IN"»; strings.Join(sqlLabels, ",") «»; str «#0 of b.labelsCol.String(ctx, opts...)»
  ⟨10944517613636773530, sql, [codeText, rendered, rendered], ""⟩
]
/-! ### logql/logql_transpiler_v2/clickhouse_planner/planner_drop.go -/
def f_logql_logql_transpiler_v2_clickhouse_planner_planner_drop : List Entry := [
  -- mapDropFilter.String | stringer |  | 
  ⟨1141585044717716263, marker, [], ""⟩,
  -- mapDropFilter.String | sprintf | mapFilter(%s, %s) | fn «#0 of m.genFilterFn(ctx, options...)»; str «#0 of m.col.String(ctx, options...)»
  ⟨3108556135870571322, sql, [rendered, rendered], "fn = text of genFilterFn (the next two sites), str = the patched column"⟩,
  -- mapDropFilter.genFilterFn | sprintf | k!=%s | quoteKey «#0 of sql.NewStringVal(l).String(ctx, options...)»
  ⟨12427557266919669718, sql, [escaped], ""⟩,
  -- mapDropFilter.genFilterFn | sprintf | (k, v)!=(%s, %s) | quoteKey «#0 of sql.NewStringVal(l).String(ctx, options...)»; quoteVal «#0 of sql.NewStringVal(m.values[i]).String(ctx, options...)»
  ⟨4013988654720717349, sql, [escaped, escaped], ""⟩,
  -- mapDropFilter.genFilterFn | sprintf | (k,v) -> %s | strings.Join(clauses, " and ") «»
  ⟨13670078566775745271, sql, [rendered], ""⟩
]
/-! ### logql/logql_transpiler_v2/clickhouse_planner/planner_drop_simple.go -/
def f_logql_logql_transpiler_v2_clickhouse_planner_planner_drop_simple : List Entry := [
  -- PlannerDropSimple.Process | withalias |  | fmt.Sprintf("pre_drop_%d", ctx.Id()) «»
  ⟨796847601243274210, dead, [other], ""⟩,
  -- PlannerDropSimple.Process | sprintf | pre_drop_%d | ctx.Id() «»
  ⟨12641861844388463786, dead, [other], ""⟩,
  -- PlannerDropSimple.Process | withalias |  | fmt.Sprintf("labels_%d", ctx.Id()) «»
  ⟨4972991460380152802, dead, [other], ""⟩,
  -- PlannerDropSimple.Process | sprintf | labels_%d | ctx.Id() «»
  ⟨6392936347344162066, dead, [other], ""⟩,
  -- PlannerDropSimple.Process | simplecol |  | withLabels.GetAlias() + ".new_fingerprint" «»; "fingerprint" «const»
  ⟨7511679143670509161, dead, [other, other], ""⟩,
  -- PlannerDropSimple.Process | simplecol |  | withMain.GetAlias() + ".timestamp_ns" «»; "timestamp_ns" «const»
  ⟨5264037639560012690, dead, [other, other], ""⟩,
  -- PlannerDropSimple.Process | simplecol |  | withMain.GetAlias() + ".value" «»; "value" «const»
  ⟨2819854129317376192, dead, [other, other], ""⟩,
  -- PlannerDropSimple.Process | simplecol |  | withLabels.GetAlias() + ".labels" «»; "labels" «const»
  ⟨5268989321667713600, dead, [other, other], ""⟩,
  -- PlannerDropSimple.Process | jointype |  | joinType «"ANY LEFT " | "GLOBAL ANY LEFT "»
  ⟨9633175273462413799, dead, [other], ""⟩,
  -- PlannerDropSimple.Process | raw |  | withMain.GetAlias() + ".fingerprint" «»
  ⟨3310594580590991227, dead, [other], ""⟩,
  -- PlannerDropSimple.Process | raw |  | withLabels.GetAlias() + ".fingerprint" «»
  ⟨12614975989130277433, dead, [other], ""⟩
]
/-! ### logql/logql_transpiler_v2/clickhouse_planner/planner_label_filter.go -/
def f_logql_logql_transpiler_v2_clickhouse_planner_planner_label_filter : List Entry := [
  -- LabelFilterPlanner.makeSqlCond | concat | illegal expression %s | expr.String() «»
  ⟨14133428314736921914, notSql, [other], ""⟩,
  -- LabelFilterPlanner.makeSimpleStrSqlCond | raw |  | fmt.Sprintf("labels['%s']", expr.Label.Name) «»
  ⟨15602174929248867477, sql, [nested], ""⟩,
  -- LabelFilterPlanner.makeSimpleStrSqlCond | sprintf | labels['%s'] | expr.Label.Name «»
  ⟨11960173410074930917, sql, [identQ], "expr.Label.Name is a LabelName token (Label_name | Macros_function): C10.ident_safe / labelGetterMap_text"⟩,
  -- LabelFilterPlanner.makeSimpleStrSqlCond | concat | illegal expression: %s | expr.String() «»
  ⟨15059291407124924613, notSql, [other], ""⟩,
  -- LabelFilterPlanner.makeSimpleNumSqlCond | raw |  | fmt.Sprintf("labels['%s']", expr.Label.Name) «»
  ⟨1846408713485543986, sql, [nested], ""⟩,
  -- LabelFilterPlanner.makeSimpleNumSqlCond | sprintf | labels['%s'] | expr.Label.Name «»
  ⟨6788615147413763264, sql, [identQ], "expr.Label.Name is a LabelName token (Label_name | Macros_function): C10.ident_safe / labelGetterMap_text"⟩,
  -- LabelFilterPlanner.makeSimpleNumSqlCond | concat | illegal expression: %s | expr.String() «»
  ⟨14123571348831990766, notSql, [other], ""⟩,
  -- notNull.String | stringer |  | 
  ⟨7956371610646780980, marker, [], ""⟩,
  -- notNull.String | sprintf | %s IS NOT NULL | str «#0 of t.main.String(ctx, opts...)»
  ⟨15452984147699923133, sql, [rendered], ""⟩,
  -- toFloat64OrNull.String | stringer |  | 
  ⟨5165417173315116833, marker, [], ""⟩,
  -- toFloat64OrNull.String | sprintf | toFloat64OrNull(%s) | str «#0 of t.main.String(ctx, opts...)»
  ⟨15801179722583310662, sql, [rendered], ""⟩
]
/-! ### logql/logql_transpiler_v2/clickhouse_planner/planner_label_format.go -/
def f_logql_logql_transpiler_v2_clickhouse_planner_planner_label_format : List Entry := [
  -- LabelFormatPlanner.Process | customcol |  | 
  ⟨12892987230986422969, marker, [], ""⟩,
  -- LabelFormatPlanner.Process | sprintf | labels[%s] | lbl «#0 of sql.NewStringVal(o.LabelVal.Name).String(ctx, options...)»
  ⟨2102597217846781090, dead, [other], ""⟩
]
/-! ### logql/logql_transpiler_v2/clickhouse_planner/planner_labels_joiner.go -/
def f_logql_logql_transpiler_v2_clickhouse_planner_planner_labels_joiner : List Entry := [
  -- LabelsJoinPlanner.Process | jointype |  | joinType «"ANY LEFT " | "GLOBAL ANY LEFT "»
  ⟨10060957279230843016, sql, [codeText], ""⟩
]
/-! ### logql/logql_transpiler_v2/clickhouse_planner/planner_line_filter.go -/
def f_logql_logql_transpiler_v2_clickhouse_planner_planner_line_filter : List Entry := [
  -- LineFilterPlanner.Process | sprintf | %s not supported | l.Op «»
  ⟨9647435048903364250, notSql, [other], ""⟩,
  -- LineFilterPlanner.doLike | concat | %%%s%% | val «param | strings.NewReplacer(`\`, `\\`, "%", `\%`, "_", `\_`).Replace(val)»
  ⟨9815785349286655366, notSql, [other], "the LIKE pattern before escaping; it goes through enquoteStr = NewStringVal(..).String on the next line (model: likeLiteral)"⟩,
  -- LineFilterPlanner.doLike | raw |  | fmt.Sprintf("%s(samples.string, %s)", likeOp, enqVal) «»
  ⟨197882619449423097, sql, [nested], ""⟩,
  -- LineFilterPlanner.doLike | sprintf | %s(samples.string, %s) | likeOp «param»; enqVal «#0 of l.enquoteStr("%" + val + "%")»
  ⟨1815124408594920394, sql, [codeText, escaped], "likeOp is one of like/notLike/ilike/notILike chosen in Process"⟩
]
/-! ### logql/logql_transpiler_v2/clickhouse_planner/planner_line_format.go -/
def f_logql_logql_transpiler_v2_clickhouse_planner_planner_line_format : List Entry := [
  -- LineFormatPlanner.ProcessTpl | sprintf | tpl%d | ctx.Id() «»
  ⟨13876079895081004894, notSql, [other], "name of the text/template"⟩,
  -- LineFormatPlanner.textNode | append | l.formatStr += %s | string(n.(*parse.TextNode).Text) «»
  ⟨10325028220954314336, notSql, [other], "template text appended to formatStr, which sqlFormat.String writes through NewStringVal (model: tplFormat)"⟩,
  -- LineFormatPlanner.fieldNode | append | l.formatStr += %s | fmt.Sprintf("{%d}", len(l.args)) «»
  ⟨6169970633549741091, notSql, [other], "`{n}` appended to formatStr (escaped later)"⟩,
  -- LineFormatPlanner.fieldNode | sprintf | {%d} | len(l.args) «»
  ⟨17670047562576235829, notSql, [other], "part of formatStr (escaped later)"⟩,
  -- LineFormatPlanner.fieldNode | customcol |  | 
  ⟨5373138430596960906, marker, [], ""⟩,
  -- LineFormatPlanner.fieldNode | sprintf | labels[%s] | lbl «#0 of sql.NewStringVal(n.(*parse.FieldNode).Ident[0]).String(ctx, options...)»
  ⟨14313981669630885034, sql, [escaped], ""⟩
]
/-! ### logql/logql_transpiler_v2/clickhouse_planner/planner_lra.go -/
def f_logql_logql_transpiler_v2_clickhouse_planner_planner_lra : List Entry := [
  -- LRAPlanner.Process | raw |  | fmt.Sprintf("toFloat64(COUNT()) * 1000000000 / %d", l.Duration.Nanoseconds()) «»
  ⟨1526380577921501852, sql, [nested], ""⟩,
  -- LRAPlanner.Process | sprintf | toFloat64(COUNT()) * 1000000000 / %d | l.Duration.Nanoseconds() «»
  ⟨1558942207451340740, sql, [number], ""⟩,
  -- LRAPlanner.Process | raw |  | fmt.Sprintf("toFloat64(sum(length(_string))) * 1000000000 / %d", l.Duration.Nanoseconds()) «»
  ⟨10132844463191632493, sql, [nested], ""⟩,
  -- LRAPlanner.Process | sprintf | toFloat64(sum(length(_string))) * 1000000000 / %d | l.Duration.Nanoseconds() «»
  ⟨5278384247995147593, sql, [number], ""⟩,
  -- LRAPlanner.Process | simplecol |  | fmt.Sprintf("intDiv(time_series.timestamp_ns, %d) * %[1]d", l.Duration.Nanoseconds()) «»; "timestamp_ns" «const»
  ⟨7029133934088922857, sql, [nested, codeText], ""⟩,
  -- LRAPlanner.Process | sprintf | intDiv(time_series.timestamp_ns, %d) * %[1]d | l.Duration.Nanoseconds() «»
  ⟨14907572146910177406, sql, [number], ""⟩
]
/-! ### logql/logql_transpiler_v2/clickhouse_planner/planner_main_finalizer.go -/
def f_logql_logql_transpiler_v2_clickhouse_planner_planner_main_finalizer : List Entry := [
  -- MainFinalizerPlanner.Process | withalias |  | m.Alias «»
  ⟨16201996659803513711, sql, [alias], ""⟩,
  -- MainFinalizerPlanner.Process | simplecol |  | m.Alias + ".fingerprint" «»; "fingerprint" «const»
  ⟨14483827239771230157, sql, [alias, codeText], "m.Alias is \"prefinal\" unless a planner sets a constant"⟩,
  -- MainFinalizerPlanner.Process | simplecol |  | m.Alias + ".labels" «»; "labels" «const»
  ⟨16034097601841192917, sql, [alias, codeText], "m.Alias is \"prefinal\" unless a planner sets a constant"⟩,
  -- MainFinalizerPlanner.Process | simplecol |  | m.Alias + ".string" «»; "string" «const»
  ⟨6841479459852836629, sql, [alias, codeText], "m.Alias is \"prefinal\" unless a planner sets a constant"⟩,
  -- MainFinalizerPlanner.Process | simplecol |  | m.Alias + ".timestamp_ns" «»; "timestamp_ns" «const»
  ⟨6906422914706151977, sql, [alias, codeText], "m.Alias is \"prefinal\" unless a planner sets a constant"⟩,
  -- MainFinalizerPlanner.processMatrix | withalias |  | m.Alias «»
  ⟨8630316366357669918, sql, [alias], ""⟩,
  -- MainFinalizerPlanner.processMatrix | simplecol |  | m.Alias + ".fingerprint" «»; "fingerprint" «const»
  ⟨7971170626139282222, sql, [alias, codeText], "m.Alias is \"prefinal\" unless a planner sets a constant"⟩,
  -- MainFinalizerPlanner.processMatrix | simplecol |  | m.Alias + ".labels" «»; "labels" «const»
  ⟨8274482236206723310, sql, [alias, codeText], "m.Alias is \"prefinal\" unless a planner sets a constant"⟩,
  -- MainFinalizerPlanner.processMatrix | simplecol |  | m.Alias + ".value" «»; "value" «const»
  ⟨13867945711270950440, sql, [alias, codeText], "m.Alias is \"prefinal\" unless a planner sets a constant"⟩,
  -- MainFinalizerPlanner.processMatrix | simplecol |  | m.Alias + ".timestamp_ns" «»; "timestamp_ns" «const»
  ⟨7636657649223685082, sql, [alias, codeText], "m.Alias is \"prefinal\" unless a planner sets a constant"⟩
]
/-! ### logql/logql_transpiler_v2/clickhouse_planner/planner_main_init.go -/
def f_logql_logql_transpiler_v2_clickhouse_planner_planner_main_init : List Entry := [
  -- SqlMainInitPlanner.Process | simplecol |  | ctx.SamplesTableName «»; "samples" «const»
  ⟨7297633705337309629, sql, [config, codeText], ""⟩
]
/-! ### logql/logql_transpiler_v2/clickhouse_planner/planner_main_order_by.go -/
def f_logql_logql_transpiler_v2_clickhouse_planner_planner_main_order_by : List Entry := [
  -- MainOrderByPlanner.Process | raw |  | c «range#1 m.Cols»
  ⟨6157445769915828009, sql, [codeText], "m.Cols is the literal []string{\"timestamp_ns\"} of planner.go"⟩
]
/-! ### logql/logql_transpiler_v2/clickhouse_planner/planner_main_renew.go -/
def f_logql_logql_transpiler_v2_clickhouse_planner_planner_main_renew : List Entry := [
  -- MainRenewPlanner.Process | withalias |  | fmt.Sprintf("subsel_%d", ctx.Id()) «»
  ⟨10797058325391186985, sql, [nested], ""⟩,
  -- MainRenewPlanner.Process | sprintf | subsel_%d | ctx.Id() «»
  ⟨3037115093506386307, sql, [number], ""⟩
]
/-! ### logql/logql_transpiler_v2/clickhouse_planner/planner_metrics15s_shortcut.go -/
def f_logql_logql_transpiler_v2_clickhouse_planner_planner_metrics15s_shortcut : List Entry := [
  -- Metrics15ShortcutPlanner.GetQuery | simplecol |  | fmt.Sprintf("intDiv(samples.timestamp_ns, %d) * %[1]d", m.Duration.Nanoseconds()) «»; "timestamp_ns" «const»
  ⟨16992049481790162831, sql, [nested, codeText], ""⟩,
  -- Metrics15ShortcutPlanner.GetQuery | sprintf | intDiv(samples.timestamp_ns, %d) * %[1]d | m.Duration.Nanoseconds() «»
  ⟨18177177845190289512, sql, [number], ""⟩,
  -- Metrics15ShortcutPlanner.GetQuery | simplecol |  | table «param»; "samples" «const»
  ⟨6348545167500209589, sql, [config, codeText], ""⟩,
  -- Metrics15ShortcutPlanner.Process | raw |  | fmt.Sprintf("toFloat64(countMerge(count)) / %f", float64(m.Duration.Milliseconds())/1000) «»
  ⟨124210355720494609, sql, [nested], ""⟩,
  -- Metrics15ShortcutPlanner.Process | sprintf | toFloat64(countMerge(count)) / %f | float64(m.Duration.Milliseconds()) / 1000 «»
  ⟨6715072701036308317, sql, [number], ""⟩,
  -- UnionSelect.String | stringer |  | 
  ⟨9871855304226206515, marker, [], ""⟩
]
/-! ### logql/logql_transpiler_v2/clickhouse_planner/planner_parser.go -/
def f_logql_logql_transpiler_v2_clickhouse_planner_planner_parser : List Entry := [
  -- ParserPlanner.Process | sprintf | %s not supported | p.Op «»
  ⟨10109275094826724671, notSql, [other], ""⟩
]
/-! ### logql/logql_transpiler_v2/clickhouse_planner/planner_parser_json.go -/
def f_logql_logql_transpiler_v2_clickhouse_planner_planner_parser_json : List Entry := [
  -- sqlJsonParser.String | stringer |  | 
  ⟨12895545963415331172, marker, [], ""⟩,
  -- sqlJsonParser.String | sprintf | mapFromArrays([%s], [%s]) | strings.Join(strLabels, ",") «»; strings.Join(strVals, ",") «»
  ⟨9997550726382462906, sql, [rendered, rendered], ""⟩,
  -- sqlJsonParser.path2Sql | sprintf | if(JSONType(%[2]s, %[1]s) == 'String', JSONExtractString(%[2]s, %[1]s), JSONExtractRaw(%[2]s, %[1]s)) | strings.Join(res, ",") «»; colName «#0 of s.col.String(ctx, opts...)»
  ⟨17724898897779084336, sql, [rendered, rendered], ""⟩
]
/-! ### logql/logql_transpiler_v2/clickhouse_planner/planner_parser_regexp.go -/
def f_logql_logql_transpiler_v2_clickhouse_planner_planner_parser_regexp : List Entry := [
  -- regexPart.String | concat | (%s) | r.NamedBrackPart.String() «»
  ⟨12045491534462140214, notSql, [other], "text of the pattern without ?P<name>; regexMap.String writes it through NewStringVal"⟩,
  -- regexPart.String | concat | (%s) | r.BrackPart.String() «»
  ⟨16655578468608788335, notSql, [other], "text of the pattern without ?P<name>; regexMap.String writes it through NewStringVal"⟩,
  -- regexMap.String | stringer |  | 
  ⟨5969986423888190091, marker, [], ""⟩,
  -- regexMap.String | sprintf | mapFromArrays(arrayFilter( (x,y) -> x != '' AND y != '',  [%[1]s] as re_lbls_%[2]d,  arrayMap(x -> x[length(x)], extractAllGroupsHorizontal(%[4]s, %[3]s)) as re_vals_%[2]d),arrayFilter((x,y) -> x != '' AND y != '', re_vals_%[2]d, re_lbls_%[2]d)) | strings.Join(strLabels, ",") «»; id «ctx.Id()»; strRe «#0 of (sql.NewStringVal(r.re)).String(ctx, opts...)»; strCol «#0 of r.col.String(ctx, opts...)»
  ⟨17697900074376679104, sql, [rendered, number, escaped, rendered], ""⟩
]
/-! ### logql/logql_transpiler_v2/clickhouse_planner/planner_quantile.go -/
def f_logql_logql_transpiler_v2_clickhouse_planner_planner_quantile : List Entry := [
  -- QuantilePlanner.Process | simplecol |  | fmt.Sprintf("intDiv(quant_a.timestamp_ns, %d) * %[1]d", p.Duration.Nanoseconds()) «»; "timestamp_ns" «const»
  ⟨7342589419733492191, sql, [nested, codeText], ""⟩,
  -- QuantilePlanner.Process | sprintf | intDiv(quant_a.timestamp_ns, %d) * %[1]d | p.Duration.Nanoseconds() «»
  ⟨6055001348726953248, sql, [number], ""⟩,
  -- QuantilePlanner.Process | simplecol |  | fmt.Sprintf("quantile(%f)(value)", p.Param) «»; "value" «const»
  ⟨14016602575065435625, sql, [nested, codeText], ""⟩,
  -- QuantilePlanner.Process | sprintf | quantile(%f)(value) | p.Param «»
  ⟨18166979635660539637, sql, [number], ""⟩
]
/-! ### logql/logql_transpiler_v2/clickhouse_planner/planner_series.go -/
def f_logql_logql_transpiler_v2_clickhouse_planner_planner_series : List Entry := [
  -- SeriesPlanner.Process | simplecol |  | tableName «ctx.TimeSeriesTableName | ctx.TimeSeriesDistTableName»; "time_series" «const»
  ⟨16890651571306788452, sql, [config, codeText], ""⟩
]
/-! ### logql/logql_transpiler_v2/clickhouse_planner/planner_simple_label_filter.go -/
def f_logql_logql_transpiler_v2_clickhouse_planner_planner_simple_label_filter : List Entry := [
  -- SimpleLabelFilterPlanner.Process | sprintf | subsel_%d | ctx.Id() «»
  ⟨14177990215273405494, sql, [number], ""⟩,
  -- SimpleLabelFilterPlanner.Process | withalias |  | id «fmt.Sprintf("subsel_%d", ctx.Id())»
  ⟨7110720686377741511, sql, [nested], ""⟩,
  -- SimpleLabelFilterPlanner.Process | raw |  | ctx.TimeSeriesTableName «»
  ⟨14771942998234767037, sql, [config], ""⟩,
  -- SimpleLabelFilterPlanner.Process | raw |  | fmt.Sprintf("JSONExtractString(labels, '%s')", s) «»
  ⟨11722670569532536738, sql, [nested], ""⟩,
  -- SimpleLabelFilterPlanner.Process | sprintf | JSONExtractString(labels, '%s') | s «param»
  ⟨11325406939051809307, sql, [identQ], "s is a LabelName token handed by makeSqlCond: C10.ident_safe"⟩
]
/-! ### logql/logql_transpiler_v2/clickhouse_planner/planner_step_fix.go -/
def f_logql_logql_transpiler_v2_clickhouse_planner_planner_step_fix : List Entry := [
  -- StepFixPlanner.Process | simplecol |  | fmt.Sprintf("intDiv(pre_step_fix.timestamp_ns, %d) * %[1]d", ctx.Step.Nanoseconds()) «»; "timestamp_ns" «const»
  ⟨11324371463106769962, sql, [nested, codeText], ""⟩,
  -- StepFixPlanner.Process | sprintf | intDiv(pre_step_fix.timestamp_ns, %d) * %[1]d | ctx.Step.Nanoseconds() «»
  ⟨12795429398115832371, sql, [number], ""⟩
]
/-! ### logql/logql_transpiler_v2/clickhouse_planner/planner_stream_select.go -/
def f_logql_logql_transpiler_v2_clickhouse_planner_planner_stream_select : List Entry := [
  -- StreamSelectPlanner.Process | sprintf | %s op not supported | s.Ops[i] «»
  ⟨466172339745617224, notSql, [other], ""⟩,
  -- StreamSelectPlanner.Process | raw |  | ctx.TimeSeriesGinTableName «»
  ⟨1868251242145107282, sql, [config], ""⟩,
  -- SqlBitSetAnd.String | stringer |  | 
  ⟨8465925159335487964, marker, [], ""⟩,
  -- SqlBitSetAnd.String | sprintf | bitShiftLeft(toUInt64(%s), %d) | strConditions[i] «»; i «range#0 s.clauses»
  ⟨1577716506978316448, sql, [rendered, number], ""⟩,
  -- SqlBitSetAnd.String | sprintf | groupBitOr(%s) | strings.Join(strConditions, " + ") «»
  ⟨16128829515305523711, sql, [rendered], ""⟩
]
/-! ### logql/logql_transpiler_v2/clickhouse_planner/planner_time_series_init.go -/
def f_logql_logql_transpiler_v2_clickhouse_planner_planner_time_series_init : List Entry := [
  -- TimeSeriesInitPlanner.Process | simplecol |  | ctx.TimeSeriesDistTableName «»; "time_series" «const»
  ⟨10978915280595027957, sql, [config, codeText], ""⟩
]
/-! ### logql/logql_transpiler_v2/clickhouse_planner/planner_topk.go -/
def f_logql_logql_transpiler_v2_clickhouse_planner_planner_topk : List Entry := [
  -- TopKPlanner.Process | simplecol |  | fmt.Sprintf("arraySlice(arraySort(%sgroupArray((%s))), 1, %d)", lambda, tuple, t.Len) «»; "slice" «const»
  ⟨8367071000009366206, sql, [nested, codeText], ""⟩,
  -- TopKPlanner.Process | sprintf | arraySlice(arraySort(%sgroupArray((%s))), 1, %d) | lambda «"" | "x -> (-x.1, x.2" | += ", x.3" | += "),"»; tuple «"par_a.value, par_a.fingerprint" | += ", par_a.labels"»; t.Len «»
  ⟨3865600283591824941, sql, [codeText, codeText, number], ""⟩
]
/-! ### logql/logql_transpiler_v2/clickhouse_planner/planner_unwrap.go -/
def f_logql_logql_transpiler_v2_clickhouse_planner_planner_unwrap : List Entry := [
  -- UnwrapPlanner.processSimple | customcol |  | 
  ⟨8435874478566672370, marker, [], ""⟩,
  -- UnwrapPlanner.processSimple | sprintf | %s[%s] | strLabels «#0 of labels.String(ctx, options...)»; val «#0 of sql.NewStringVal(label).String(ctx, options...)»
  ⟨9076948136357784330, sql, [rendered, escaped], ""⟩,
  -- UnwrapPlanner.processSimple | sprintf | toFloat64OrZero(%s) | strLabel «var | fmt.Sprintf("%s[%s]", strLabels, val) | #0 of strCol.String(ctx, options...)»
  ⟨14018303397513429943, sql, [rendered], ""⟩,
  -- UnwrapPlanner.processTimeSeries | jointype |  | joinType «"ANY LEFT " | "GLOBAL ANY LEFT "»
  ⟨17645887935928295412, sql, [codeText], ""⟩
]
/-! ### logql/logql_transpiler_v2/clickhouse_planner/planner_unwrap_function.go -/
def f_logql_logql_transpiler_v2_clickhouse_planner_planner_unwrap_function : List Entry := [
  -- UnwrapFunctionPlanner.Process | raw |  | fmt.Sprintf("sum(unwrap_1.value) * 1000000000 / %d", u.Duration.Nanoseconds()) «»
  ⟨8606732979628721210, sql, [nested], ""⟩,
  -- UnwrapFunctionPlanner.Process | sprintf | sum(unwrap_1.value) * 1000000000 / %d | u.Duration.Nanoseconds() «»
  ⟨2294303047273210504, sql, [number], ""⟩,
  -- UnwrapFunctionPlanner.Process | simplecol |  | fmt.Sprintf("intDiv(timestamp_ns, %d) * %[1]d", u.Duration.Nanoseconds()) «»; "timestamp_ns" «const»
  ⟨17948493511835302538, sql, [nested, codeText], ""⟩,
  -- UnwrapFunctionPlanner.Process | sprintf | intDiv(timestamp_ns, %d) * %[1]d | u.Duration.Nanoseconds() «»
  ⟨10773940542959383493, sql, [number], ""⟩
]
/-! ### logql/logql_transpiler_v2/clickhouse_planner/planner_values.go -/
def f_logql_logql_transpiler_v2_clickhouse_planner_planner_values : List Entry := [
  -- ValuesPlanner.Process | raw |  | ctx.TimeSeriesGinTableName «»
  ⟨13249547578285726511, sql, [config], ""⟩
]
/-! ### logql/logql_transpiler_v2/clickhouse_planner/planner_with_connector.go -/
def f_logql_logql_transpiler_v2_clickhouse_planner_planner_with_connector : List Entry := [
  -- WithConnectorPlanner.Process | withalias |  | w.Alias «»
  ⟨330210337729286611, sql, [alias], ""⟩
]
/-! ### logql/logql_transpiler_v2/clickhouse_planner/sql_misc.go -/
def f_logql_logql_transpiler_v2_clickhouse_planner_sql_misc : List Entry := [
  -- sqlMatch.String | stringer |  | 
  ⟨10697566522207605494, marker, [], ""⟩,
  -- sqlMatch.String | sprintf | match(%s, %s) | strCol «#0 of s.col.String(ctx, opts...)»; strVal «#0 of s.patternObj.String(ctx, opts...)»
  ⟨15601648155000105772, sql, [rendered, rendered], ""⟩,
  -- sqlMapUpdate.String | stringer |  | 
  ⟨2121221764851007736, marker, [], ""⟩,
  -- sqlMapUpdate.String | sprintf | mapUpdate(%s, %s) | str1 «#0 of s.m1.String(ctx, opts...)»; str2 «#0 of s.m2.String(ctx, opts...)»
  ⟨10044483398064481818, sql, [rendered, rendered], ""⟩,
  -- patchCol | colalias |  | name «param»
  ⟨3469864457731567908, sql, [codeText], "callers pass the literals labels / fingerprint / string"⟩,
  -- sqlMapInit.String | stringer |  | 
  ⟨6622924325583016973, marker, [], ""⟩,
  -- sqlMapInit.String | sprintf | ([%s],[%s])::%s | strings.Join(str[0], ",") «»; strings.Join(str[1], ",") «»; m.TypeName «»
  ⟨5729681639982129981, sql, [rendered, rendered, codeText], "TypeName is the literal Map(String, String)"⟩,
  -- sqlFormat.String | stringer |  | 
  ⟨2988980154523834948, marker, [], ""⟩,
  -- sqlFormat.String | sprintf | format(%s, %s) | format «#0 of sql.NewStringVal(s.format).String(ctx, opts...)»; strings.Join(args, ", ") «»
  ⟨16849092116780600613, sql, [escaped, rendered], ""⟩,
  -- UnionAll.String | stringer |  | 
  ⟨3862726815308909523, marker, [], ""⟩
]
/-! ### logql/logql_transpiler_v2/internal_planner/planner_parser.go -/
def f_logql_logql_transpiler_v2_internal_planner_planner_parser : List Entry := [
  -- ParserPlanner.Process | sprintf | %s not supported | p.Op «»
  ⟨6276764781536645608, notSql, [other], ""⟩
]
/-! ### logql/logql_transpiler_v2/shared/path_parser.go -/
def f_logql_logql_transpiler_v2_shared_path_parser : List Entry := [
  -- jsonPathPart.String | sprintf | %d | i + 1 «»
  ⟨9355795528536250587, notSql, [other], ""⟩
]
/-! ### main.go -/
def f_main : List Entry := [
  -- configureAsHTTPServer | sprintf | %s:%d | config.Cloki.Setting.HTTP_SETTINGS.Host «»; config.Cloki.Setting.HTTP_SETTINGS.Port «»
  ⟨9593226745289001901, notSql, [other, other], ""⟩
]
/-! ### prof/transpiler/planner_filter_labels.go -/
def f_prof_transpiler_planner_filter_labels : List Entry := [
  -- FilterLabelsPlanner.Process | customcol |  | 
  ⟨3039830080803866434, marker, [], ""⟩,
  -- FilterLabelsPlanner.Process | sprintf | arrayFilter(x -> %s, tags) | strCond «#0 of cond.String(ctx, options...)»
  ⟨7104916286927468465, sql, [rendered], ""⟩
]
/-! ### prof/transpiler/planner_get_labels.go -/
def f_prof_transpiler_planner_get_labels : List Entry := [
  -- GetLabelsPlanner.Process | customcol |  | 
  ⟨4625144521611149298, marker, [], ""⟩,
  -- GetLabelsPlanner.Process | sprintf | arrayFilter(x -> %s, p.tags) | strInTags «#0 of inTags.String(ctx, options...)»
  ⟨9029069499059437831, sql, [rendered], ""⟩,
  -- GetLabelsPlanner.Process | raw |  | ctx.ProfilesSeriesTable «»
  ⟨9540709429143075057, sql, [config], ""⟩
]
/-! ### prof/transpiler/planner_label_generic.go -/
def f_prof_transpiler_planner_label_generic : List Entry := [
  -- GenericLabelsPlanner._process | raw |  | returnCol «param»
  ⟨8973043583813272474, sql, [codeText], "returnCol is the literal key / val"⟩,
  -- GenericLabelsPlanner._process | raw |  | ctx.ProfilesSeriesGinDistTable «»
  ⟨15388963465589287391, sql, [codeText], "returnCol is the literal key / val"⟩
]
/-! ### prof/transpiler/planner_merge_profiles.go -/
def f_prof_transpiler_planner_merge_profiles : List Entry := [
  -- MergeProfilesPlanner.Process | raw |  | ctx.ProfilesDistTable «»
  ⟨5545543501344586878, sql, [config], ""⟩
]
/-! ### prof/transpiler/planner_merge_raw.go -/
def f_prof_transpiler_planner_merge_raw : List Entry := [
  -- MergeRawPlanner.Process | customcol |  | 
  ⟨2399123865353346788, marker, [], ""⟩,
  -- MergeRawPlanner.Process | concat | %s:%s | m.sampleType «»; m.sampleUnit «»
  ⟨4627933778432400721, notSql, [other, other], "sample type id, wrapped in NewStringVal on the same line"⟩,
  -- MergeRawPlanner.Process | sprintf | arrayMap(x -> (x.1, x.2, x.3, (arrayFirst(y -> y.1 == %s, x.4) as af).2, af.3), tree) | strVal «#0 of val.String(ctx, options...)»
  ⟨8469151821193353837, sql, [rendered], ""⟩,
  -- MergeRawPlanner.Process | raw |  | ctx.ProfilesDistTable «»
  ⟨12545191909595123082, sql, [config], ""⟩
]
/-! ### prof/transpiler/planner_profiles_size.go -/
def f_prof_transpiler_planner_profiles_size : List Entry := [
  -- ProfileSizePlanner.Process | customcol |  | 
  ⟨1378064697595452291, marker, [], ""⟩,
  -- ProfileSizePlanner.Process | sprintf | (%s) | str «#0 of o.String(ctx, options...)»
  ⟨8055640907859515652, sql, [rendered], ""⟩
]
/-! ### prof/transpiler/planner_select_all_time_series.go -/
def f_prof_transpiler_planner_select_all_time_series : List Entry := [
  -- AllTimeSeriesSelectPlanner.Process | simplecol |  | ctx.ProfilesSeriesDistTable «»; "p" «const»
  ⟨7136590879622858246, sql, [config, codeText], ""⟩
]
/-! ### prof/transpiler/planner_select_series.go -/
def f_prof_transpiler_planner_select_series : List Entry := [
  -- SelectSeriesPlanner.Process | sprintf | %s:%s | s.SampleType «»; s.SampleUnit «»
  ⟨2668520439535867931, notSql, [other, other], "sample type id, wrapped in NewStringVal on the next line"⟩,
  -- SelectSeriesPlanner.Process | customcol |  | 
  ⟨13717770995446143130, marker, [], ""⟩,
  -- SelectSeriesPlanner.Process | sprintf | sum(toFloat64(arrayFirst(x -> %s, p.values_agg).2)) | strSampleTypeUnit «#0 of sampleTypeUnitCond.String(ctx, options...)»
  ⟨2896649357126252872, sql, [rendered], ""⟩,
  -- SelectSeriesPlanner.Process | customcol |  | 
  ⟨13717770995446143130, marker, [], ""⟩,
  -- SelectSeriesPlanner.Process | sprintf | sum(toFloat64(arrayFirst(x -> %s, p.values_agg).2)) / sum(toFloat64(arrayFirst(x -> x.1 == %s).3)) | strSampleTypeUnit «#0 of sampleTypeUnitCond.String(ctx, options...)»; strSampleTypeUnit «#0 of sampleTypeUnitCond.String(ctx, options...)»
  ⟨4475668803193683140, sql, [rendered, rendered], ""⟩,
  -- SelectSeriesPlanner.Process | simplecol |  | fmt.Sprintf("intDiv(p.timestamp_ns, 1000000000 * %d) * %d * 1000", s.Step, s.Step) «»; "timestamp_ms" «const»
  ⟨12088407267317416746, sql, [nested, codeText], ""⟩,
  -- SelectSeriesPlanner.Process | sprintf | intDiv(p.timestamp_ns, 1000000000 * %d) * %d * 1000 | s.Step «»; s.Step «»
  ⟨12932651738901050954, sql, [number, number], ""⟩,
  -- SelectSeriesPlanner.Process | simplecol |  | ctx.ProfilesDistTable «»; "p" «const»
  ⟨6393111943996745349, sql, [config, codeText], ""⟩
]
/-! ### prof/transpiler/planner_select_time_series.go -/
def f_prof_transpiler_planner_select_time_series : List Entry := [
  -- TimeSeriesSelectPlanner.Process | simplecol |  | ctx.ProfilesSeriesDistTable «»; "p" «const»
  ⟨3692234311659692561, sql, [config, codeText], ""⟩
]
/-! ### prof/transpiler/planner_selector.go -/
def f_prof_transpiler_planner_selector : List Entry := [
  -- StreamSelectorPlanner.Process | raw |  | ctx.ProfilesSeriesGinTable «»
  ⟨4427467636339353578, sql, [config], ""⟩,
  -- StreamSelectorPlanner.getMatchers | concat | ^(?:%s)$ | _str «#0 of selector.Val.Unquote() | "^(?:" + _str + ")$"»
  ⟨9831069840874922188, notSql, [other], "anchored regex, a NewStringVal leaf afterwards (model: Prof.PCond)"⟩,
  -- StreamSelectorPlanner.getMatchers | raw |  | fieldToMatch «"format('{}:{}:{}:{}:{}', (splitByChar(':', type_id) as _parts)[1], x.1, x.2, _parts[2], _parts[3])"»
  ⟨2371200799797572531, sql, [codeText], ""⟩,
  -- StreamSelectorPlanner.getArrayExists | customcol |  | 
  ⟨8035041182615197855, marker, [], ""⟩,
  -- StreamSelectorPlanner.getArrayExists | sprintf | arrayExists(x -> %s, %s) | strCond «#0 of cond.String(ctx, options...)»; strField «#0 of field.String(ctx, options...)»
  ⟨1532175580860049843, sql, [rendered, rendered], ""⟩,
  -- StreamSelectorPlanner.getMatcherClause | customcol |  | 
  ⟨14732624082200348645, marker, [], ""⟩,
  -- StreamSelectorPlanner.getMatcherClause | sprintf | match(%s, %s) | strField «#0 of field.String(ctx, options...)»; strVal «#0 of val.String(ctx, options...)»
  ⟨12412211983188026388, sql, [rendered, rendered], ""⟩,
  -- StreamSelectorPlanner.getMatcherClause | customcol |  | 
  ⟨14732624082200348645, marker, [], ""⟩,
  -- StreamSelectorPlanner.getMatcherClause | sprintf | match(%s, %s) | strField «#0 of field.String(ctx, options...)»; strVal «#0 of val.String(ctx, options...)»
  ⟨12412211983188026388, sql, [rendered, rendered], ""⟩
]
/-! ### prof/transpiler/planner_union_all.go -/
def f_prof_transpiler_planner_union_all : List Entry := [
  -- unionAll.String | stringer |  | 
  ⟨2860992419589317847, marker, [], ""⟩,
  -- unionAll.String | concat | (%s) | strings.Join(strSubSelects, ") UNION ALL (") «»
  ⟨2653326218903473546, sql, [rendered], ""⟩
]
/-! ### promql/transpiler/hints_downsample_planner.go -/
def f_promql_transpiler_hints_downsample_planner : List Entry := [
  -- DownsampleHintsPlanner.Process | simplecol |  | d.getValueMerge(hints.Func) «»; "value" «const»
  ⟨1042338884499665753, sql, [codeText, codeText], "getValueMerge returns one of the constants of its table (or panics)"⟩,
  -- DownsampleHintsPlanner.Process | sprintf | intDiv(samples.timestamp_ns + %d000000, %d * 1000000) * %d - 1 | hints.Range «»; hints.Step «»; hints.Step «»
  ⟨15774886186233002381, sql, [number, number, number], ""⟩,
  -- DownsampleHintsPlanner.Process | simplecol |  | timeField «fmt.Sprintf("intDiv(samples.timestamp_ns + %d000000, %d * 1000000) * %d - 1", hints.Range, hints.Step, hints.Step) | fmt.Sprintf("intDiv(samples.timestamp_ns, %d * 1000000) * %d - 1", hints.Step, hints.Step)»; "timestamp_ms" «const»
  ⟨3387782719943326371, sql, [nested, codeText], ""⟩,
  -- DownsampleHintsPlanner.Process | raw |  | fmt.Sprintf("timestamp_ns %% %d000000", hints.Step) «»
  ⟨10852507677297819038, sql, [nested], ""⟩,
  -- DownsampleHintsPlanner.Process | sprintf | timestamp_ns %% %d000000 | hints.Step «»
  ⟨11102736546886989398, sql, [number], ""⟩,
  -- DownsampleHintsPlanner.Process | sprintf | intDiv(samples.timestamp_ns, %d * 1000000) * %d - 1 | hints.Step «»; hints.Step «»
  ⟨4903851394641270144, sql, [number, number], ""⟩,
  -- DownsampleHintsPlanner.Process | simplecol |  | timeField «fmt.Sprintf("intDiv(samples.timestamp_ns + %d000000, %d * 1000000) * %d - 1", hints.Range, hints.Step, hints.Step) | fmt.Sprintf("intDiv(samples.timestamp_ns, %d * 1000000) * %d - 1", hints.Step, hints.Step)»; "timestamp_ms" «const»
  ⟨3387782719943326371, sql, [nested, codeText], ""⟩
]
/-! ### promql/transpiler/init_clickhouse_planner.go -/
def f_promql_transpiler_init_clickhouse_planner : List Entry := [
  -- InitClickhousePlanner.Process | simplecol |  | ctx.SamplesTableName «»; "samples" «const»
  ⟨11155807185404966240, sql, [config, codeText], ""⟩
]
/-! ### promql/transpiler/init_downsample_clickhouse_planner.go -/
def f_promql_transpiler_init_downsample_clickhouse_planner : List Entry := [
  -- InitDownsamplePlanner.Process | simplecol |  | valueCol «"argMaxMerge(samples.last)"»; "value" «const»
  ⟨14352447608108020893, sql, [codeText, codeText], ""⟩,
  -- InitDownsamplePlanner.Process | simplecol |  | tableName «ctx.Metrics15sTableName»; "samples" «const»
  ⟨15762787908709956925, sql, [config, codeText], ""⟩
]
/-! ### promql/transpiler/shared.go -/
def f_promql_transpiler_shared : List Entry := [
  -- fingerprintsQuery | concat | ^(?:%s)$ | val «matcher.GetVal() | "^(?:" + val + ")$"»
  ⟨10754384289328673214, notSql, [other], "anchored regex, a NewStringVal leaf afterwards (model: Prom.Cond)"⟩,
  -- optionalLabelsQuery | sprintf | %s op not supported | ops[i] «»
  ⟨8588016881244080093, notSql, [other], ""⟩,
  -- optionalLabelsQuery | raw |  | ctx.TimeSeriesGinTableName «»
  ⟨13599595497814092052, sql, [config], ""⟩
]
/-! ### promql/transpiler/transpiler.go -/
def f_promql_transpiler_transpiler : List Entry := [
  -- processHints | raw |  | fmt.Sprintf("intDiv(spls.timestamp_ms - %d + %d - 1, %d)", hints.Start, hints.Step, hints.Step) «»
  ⟨3313417022733788834, sql, [nested], ""⟩,
  -- processHints | sprintf | intDiv(spls.timestamp_ms - %d + %d - 1, %d) | hints.Start «»; hints.Step «»; hints.Step «»
  ⟨17792446953528357598, sql, [number, number, number], ""⟩,
  -- processHints | raw |  | fmt.Sprintf("(timestamp_ms - %d) %% %d", hints.Start, hints.Step) «»
  ⟨14117126826961798420, sql, [nested], ""⟩,
  -- processHints | sprintf | (timestamp_ms - %d) %% %d | hints.Start «»; hints.Step «»
  ⟨13627539654869352932, sql, [number, number], ""⟩,
  -- trimLabels | customcol |  | 
  ⟨13680951476318313828, marker, [], ""⟩,
  -- trimLabels | sprintf | arrayFilter(x -> x.1 %s ('%s'), %s) | op «"IN" | "NOT IN"»; strings.Join(hints.Grouping, `','`) «»; strLabels «#0 of labelsCol.String(ctx, options...)»
  ⟨15251819905397860560, dead, [other, other, other], ""⟩
]
/-! ### promql/transpiler/transpilerDownsample.go -/
def f_promql_transpiler_transpilerDownsample : List Entry := [
  -- trimLabelsExperimental | customcol |  | 
  ⟨11999765173113067172, marker, [], ""⟩,
  -- trimLabelsExperimental | sprintf | arrayFilter(x -> x.1 %s ('%s'), %s) | op «"IN" | "NOT IN"»; strings.Join(hints.Grouping, `','`) «»; strLabels «#0 of labelsCol.String(ctx, options...)»
  ⟨14489577123126960784, dead, [other, other, other], ""⟩
]
/-! ### promql/transpiler/union_planner.go -/
def f_promql_transpiler_union_planner : List Entry := [
  -- UnionPlanner.Process | simplecol |  | (&DownsampleHintsPlanner{}).getValueFinalize(u.Hints.Func) «»; "value" «const»
  ⟨11357643924031275988, dead, [other, other], ""⟩,
  -- UnionPlanner.Process | customcol |  | 
  ⟨4803844805544910095, marker, [], ""⟩,
  -- UnionPlanner.Process | sprintf | (%s) | str «#0 of union.String(ctx, options...)»
  ⟨352312167509995462, dead, [other], ""⟩
]
/-! ### service/profMerge_v1.go -/
def f_service_profMerge_v1 : List Entry := [
  -- GetFunctionKey | sprintf | %d:%d:%d:%d | f.StartLine «»; f.Name «»; f.SystemName «»; f.Filename «»
  ⟨6893750107446820405, notSql, [other, other, other, other], ""⟩,
  -- GetMappingKey | sprintf | %d:%d:%d | size «m.MemoryLimit - m.MemoryStart | size + mapSizeRounding - 1 | size - (size % mapSizeRounding)»; m.FileOffset «»; buildIdOrFile «var | m.BuildId | m.Filename»
  ⟨4349390327279146031, notSql, [other, other, other], ""⟩,
  -- GetLocationKey | sprintf | %d:%d:%d | l.Address «»; lines «hashLines(l.Line)»; l.MappingId «»
  ⟨16695877894841480933, notSql, [other, other, other], ""⟩,
  -- GetSampleKey | sprintf | %d:%d | locations «hashLocations(s.LocationId)»; labels «hashProfileLabels(s.Label)»
  ⟨5345264825938705272, notSql, [other, other], ""⟩
]
/-! ### service/profService.go -/
def f_service_profService : List Entry := [
  -- ProfService.ProfileTypes | raw |  | table «getTableName(db, tables.GetTableName("profiles_series"))»
  ⟨4312886361838388454, sql, [config], ""⟩,
  -- ProfService.ProfileTypes | sprintf | %s:%s:%s:%s:%s | namePeriodTypeUnit[0] «»; sampleTypeUnit[0].(string) «»; sampleTypeUnit[1].(string) «»; namePeriodTypeUnit[1] «»; namePeriodTypeUnit[2] «»
  ⟨8538068144139770941, notSql, [other, other, other, other, other], "profile type id: response text / a value handed to NewStringVal by the planner"⟩,
  -- ProfService.MergeStackTraces | sprintf | %s:%s | typeId.SampleType «»; typeId.SampleUnit «»
  ⟨1815908322458358875, notSql, [other, other], "profile type id: response text / a value handed to NewStringVal by the planner"⟩,
  -- ProfService.TimeSeries | sprintf | %s:%s:%s:%s:%s | parsedTypeId.Tp «»; sampleTypeUnit[0].(string) «»; sampleTypeUnit[1].(string) «»; parsedTypeId.PeriodType «»; parsedTypeId.PeriodUnit «»
  ⟨8818711003633176184, notSql, [other, other, other, other, other], "profile type id: response text / a value handed to NewStringVal by the planner"⟩,
  -- ProfService.ProfileStats | sprintf | `%s`.%s_dist | db.Config.Name «»; profilesTableName «tables.GetTableName("profiles") | fmt.Sprintf("`%s`.%s_dist", db.Config.Name, profilesTableName)»
  ⟨4274311714694381436, sql, [configBq, config], ""⟩,
  -- ProfService.ProfileStats | sprintf | `%s`.%s_dist | db.Config.Name «»; profilesSeriesTableName «tables.GetTableName("profiles_series") | fmt.Sprintf("`%s`.%s_dist", db.Config.Name, profilesSeriesTableName)»
  ⟨18324902560328187834, sql, [configBq, config], ""⟩,
  -- ProfService.ProfileStats | customcol |  | 
  ⟨4158981631303438778, marker, [], ""⟩,
  -- ProfService.ProfileStats | sprintf | (%s) | strObject «#0 of object.String(ctx, options...)»
  ⟨13290702457471751652, sql, [rendered], ""⟩,
  -- ProfService.ProfileStats | customcol |  | 
  ⟨4158981631303438778, marker, [], ""⟩,
  -- ProfService.ProfileStats | sprintf | toUnixTimestamp((%s)) * 1000000000 | strObject «#0 of object.String(ctx, options...)»
  ⟨13633702237942986751, sql, [rendered], ""⟩,
  -- ProfService.ProfileStats | raw |  | profilesTableName «tables.GetTableName("profiles") | fmt.Sprintf("`%s`.%s_dist", db.Config.Name, profilesTableName)»
  ⟨5012772903814632202, sql, [config], ""⟩,
  -- ProfService.ProfileStats | raw |  | profilesSeriesTableName «tables.GetTableName("profiles_series") | fmt.Sprintf("`%s`.%s_dist", db.Config.Name, profilesSeriesTableName)»
  ⟨3306471294480652068, sql, [config], ""⟩,
  -- ProfService.ProfileStats | raw |  | profilesTableName «tables.GetTableName("profiles") | fmt.Sprintf("`%s`.%s_dist", db.Config.Name, profilesTableName)»
  ⟨5012772903814632202, sql, [config], ""⟩,
  -- ProfService.getTree | sprintf | %s:%s | typeId.SampleType «»; typeId.SampleUnit «»
  ⟨6419102731546408299, notSql, [other, other], "profile type id: response text / a value handed to NewStringVal by the planner"⟩,
  -- ProfService.detachTypeId | concat | {%s | strings.TrimSpace(typeAndQuery[1]) «»
  ⟨791953352725828437, notSql, [other], "selector text handed to the profile-selector parser"⟩
]
/-! ### service/promQueryable.go -/
def f_service_promQueryable : List Entry := [
  -- CLokiQuerier.ReshuffleSeries | write |  | strconv.Quote(lbl.Name) «»
  ⟨2585353873133912423, notSql, [other], "key of the series map"⟩,
  -- CLokiQuerier.ReshuffleSeries | write |  | strconv.Quote(lbl.Value) «»
  ⟨3519039637877229467, notSql, [other], "key of the series map"⟩,
  -- labelsGetter.Get | sprintf | Warning: no fingerprint %d found | fingerprint «param»
  ⟨6602535012121774452, notSql, [other], "log line"⟩,
  -- labelsGetter.getFetchRequest | raw |  | strconv.FormatUint(fp, 10) «»
  ⟨12096677833149351824, sql, [number], ""⟩,
  -- labelsGetter.getFetchRequest | raw |  | tableName «tables.GetTableName("time_series") | tables.GetTableName("time_series_dist")»
  ⟨17960917177538858154, sql, [config], ""⟩
]
/-! ### service/queryLabelsService.go -/
def f_service_queryLabelsService : List Entry := [
  -- QueryLabelsService.GetEstimateKVComplexityRequest | raw |  | tableName «tables.GetTableName("time_series") | tables.GetTableName("time_series_dist")»
  ⟨10673741153024787373, sql, [config], ""⟩,
  -- QueryLabelsService.Labels | simplecol |  | samplesKVTable «tables.GetTableName("time_series_gin") | tables.GetTableName("time_series_gin_dist")»; "samples" «const»
  ⟨17041733930747546375, sql, [config, codeText], ""⟩,
  -- QueryLabelsService.PromLabels | simplecol |  | plannerCtx.TimeSeriesGinTableName «»; "samples" «const»
  ⟨10898320811360637238, sql, [config, codeText], ""⟩,
  -- QueryLabelsService.Prom2LogqlMatch | sprintf | {%s} | strings.Join(strMatchers, ",") «»
  ⟨14662539194651534838, notSql, [other], "LogQL text handed to the LogQL parser"⟩
]
/-! ### service/queryRangeService.go -/
def f_service_queryRangeService : List Entry := [
  -- hashLabels | sprintf | "%s":%s | l[0].(string) «»; val «#0 of json.Marshal(l[1].(string))»
  ⟨4728124380441033683, dead, [other, other], ""⟩,
  -- hashLabels | sprintf | {%s} | strings.Join(_labels, ",") «»
  ⟨6935122394601029897, dead, [other], ""⟩,
  -- hashLabelsMap | sprintf | "%s":%s | k «range#0 labels»; val «#0 of json.Marshal(v)»
  ⟨1249477626161857372, dead, [other, other], ""⟩,
  -- hashLabelsMap | sprintf | {%s} | strings.Join(_labels, ",") «»
  ⟨10251118715471433131, dead, [other], ""⟩,
  -- QueryRangeService.exportStreamsValue | write |  | fmt.Sprintf("%d", e.TimestampNS) «»
  ⟨11234638472690115803, notSql, [other], ""⟩,
  -- QueryRangeService.exportStreamsValue | sprintf | %d | e.TimestampNS «»
  ⟨8280006074216294754, notSql, [other], ""⟩,
  -- QueryRangeService.exportStreamsValue | write |  | e.Message «»
  ⟨7929475646532427824, notSql, [other], ""⟩,
  -- QueryRangeService.QueryRange | sprintf | %f | float64(e.TimestampNS) / 1e9 «»
  ⟨6131493215444524566, notSql, [other], ""⟩,
  -- QueryRangeService.QueryRange | write |  | val «strconv.FormatFloat(e.Value, 'f', -1, 64) | strings.TrimSuffix(val, "0") | strings.TrimSuffix(val, ".")»
  ⟨14551129385224655631, notSql, [other], ""⟩,
  -- QueryRangeService.QueryInstant | write |  | v «range#1 e.Labels»
  ⟨6595603881904854006, notSql, [other], ""⟩,
  -- QueryRangeService.QueryInstant | write |  | val «strconv.FormatFloat(e.Value, 'f', -1, 64) | strings.TrimSuffix(val, "0") | strings.TrimSuffix(val, ".")»
  ⟨16956471506963702895, notSql, [other], ""⟩,
  -- QueryRangeService.Tail | write |  | fmt.Sprintf("%d", e.TimestampNS) «»
  ⟨13826784993204221393, notSql, [other], ""⟩,
  -- QueryRangeService.Tail | sprintf | %d | e.TimestampNS «»
  ⟨11672254159985841516, notSql, [other], ""⟩,
  -- QueryRangeService.Tail | write |  | e.Message «»
  ⟨9474165746352517370, notSql, [other], ""⟩,
  -- writeMap | write |  | v «range#1 m»
  ⟨4761629783793225889, notSql, [other], ""⟩
]
/-! ### service/tempoService.go -/
def f_service_tempoService : List Entry := [
  -- TempoService.GetQueryRequest | raw |  | tableName «tables.GetTableName("tempo_traces") | tables.GetTableName("tempo_traces_dist")»
  ⟨5868778088968450614, sql, [config], ""⟩,
  -- TempoService.GetQueryRequest | customcol |  | 
  ⟨17863718578915169935, marker, [], ""⟩,
  -- TempoService.GetQueryRequest | sprintf | unhex(%s) | strTraceId «#0 of sql.NewStringVal(string(traceId)).String(ctx, options...)»
  ⟨4440013742444307582, sql, [escaped], ""⟩,
  -- TempoService.GetTagsRequest | raw |  | tableName «tables.GetTableName("tempo_traces_kv") | tables.GetTableName("tempo_traces_kv_dist")»
  ⟨12682254748153904289, sql, [config], ""⟩,
  -- TempoService.GetValuesRequest | raw |  | tableName «tables.GetTableName("tempo_traces_kv") | tables.GetTableName("tempo_traces_kv_dist")»
  ⟨803657479878617956, sql, [config], ""⟩,
  -- parseZipkinJSON | concat | %s.%s | endpoint «range#1 []string{"localEndpoint", "remoteEndpoint"}»; attr «range#1 []string{"serviceName", "ipv4", "ipv6"}»
  ⟨8371728825683577010, notSql, [other, other], "JSON field names of the response"⟩,
  -- parseZipkinJSON | concat | %s.port | endpoint «range#1 []string{"localEndpoint", "remoteEndpoint"}»
  ⟨3312963501350909464, notSql, [other], "JSON field names of the response"⟩
]
/-! ### tempo/sqlIndexQuery.go -/
def f_tempo_sqlIndexQuery : List Entry := [
  -- SQLIndexQuery.String | stringer |  | 
  ⟨12599930916127034298, marker, [], ""⟩,
  -- SQLIndexQuery.String | concat | `%s`.tempo_traces_attrs_gin | s.Database «»
  ⟨8864536200863697186, sql, [configBq], ""⟩,
  -- SQLIndexQuery.String | raw |  | tableName «"`" + s.Database + "`.tempo_traces_attrs_gin" | += "_dist"»
  ⟨4125392724814247632, sql, [config], ""⟩,
  -- SQLIndexQuery.String | sprintf | toDate('%s') | from.UTC().Format("2006-01-02") «»
  ⟨14331811754581809580, sql, [dateQ], ""⟩,
  -- SQLIndexQuery.String | raw |  | date «fmt.Sprintf("toDate('%s')", from.UTC().Format("2006-01-02")) | fmt.Sprintf("toDate('%s')", to.UTC().Format("2006-01-02"))»
  ⟨10661270144121467867, sql, [nested], ""⟩,
  -- SQLIndexQuery.String | sprintf | toDate('%s') | to.UTC().Format("2006-01-02") «»
  ⟨3135587642641711673, sql, [dateQ], ""⟩,
  -- SQLIndexQuery.String | raw |  | date «fmt.Sprintf("toDate('%s')", from.UTC().Format("2006-01-02")) | fmt.Sprintf("toDate('%s')", to.UTC().Format("2006-01-02"))»
  ⟨10661270144121467867, sql, [nested], ""⟩,
  -- SQLIndexQuery.String | sprintf | subsel_%d | i «range#0 tags.Tags | range#0 sqlTagRequests»
  ⟨5531876021596736775, sql, [number], ""⟩,
  -- SQLIndexQuery.String | colalias |  | alias «fmt.Sprintf("subsel_%d", i)»
  ⟨1711514409258936697, sql, [nested], ""⟩,
  -- SQLIndexQuery.String | raw |  | alias + ".trace_id" «»
  ⟨2565715400400767076, sql, [alias], ""⟩,
  -- SQLIndexQuery.String | raw |  | alias + ".span_id" «»
  ⟨9108341884827485269, sql, [alias], ""⟩,
  -- SQLIndexQuery.String | raw |  | fmt.Sprintf("%d", s.Limit) «»
  ⟨2793389027438228781, sql, [nested], ""⟩,
  -- SQLIndexQuery.String | sprintf | %d | s.Limit «»
  ⟨10474969543834211845, sql, [number], ""⟩,
  -- getSubSelect | customcol |  | 
  ⟨10758853769780257430, marker, [], ""⟩,
  -- getSubSelect | sprintf | (%s) | str «#0 of sel.String(ctx, options...)»
  ⟨11434986139941953824, sql, [rendered], ""⟩,
  -- var opRegistry | customcol |  | 
  ⟨12059880289817471037, marker, [], ""⟩,
  -- var opRegistry | sprintf | match(val, %s) | strVal «#0 of val.String(ctx, options...)»
  ⟨411123487787272933, sql, [rendered], ""⟩,
  -- var opRegistry | customcol |  | 
  ⟨12059880289817471037, marker, [], ""⟩,
  -- var opRegistry | sprintf | match(val, %s) | strVal «#0 of val.String(ctx, options...)»
  ⟨411123487787272933, sql, [rendered], ""⟩
]
/-! ### tempo/tracesQuery.go -/
def f_tempo_tracesQuery : List Entry := [
  -- GetTracesQuery | raw |  | tableName «tables.GetTableName("tempo_traces") | tables.GetTableName("tempo_traces_dist")»
  ⟨3039780086515950727, sql, [config], ""⟩
]
/-! ### traceql/transpiler/clickhouse_transpiler/aggregator.go -/
def f_traceql_transpiler_clickhouse_transpiler_aggregator : List Entry := [
  -- AggregatorPlanner.getAggregator | raw |  | fmt.Sprintf("toFloat64(count(distinct %sindex_search.span_id))", a.Prefix) «»
  ⟨2203367083993382718, sql, [nested], ""⟩,
  -- AggregatorPlanner.getAggregator | sprintf | toFloat64(count(distinct %sindex_search.span_id)) | a.Prefix «»
  ⟨7476661414972751876, sql, [alias], ""⟩,
  -- AggregatorPlanner.getAggregator | concat | aggregator not supported: %s | a.Fn «»
  ⟨8199583344010154315, notSql, [other], ""⟩
]
/-! ### traceql/transpiler/clickhouse_transpiler/all_tags_request_planner.go -/
def f_traceql_transpiler_clickhouse_transpiler_all_tags_request_planner : List Entry := [
  -- AllTagsRequestPlanner.Process | raw |  | ctx.TracesKVDistTable «»
  ⟨17372567156837148671, sql, [config], ""⟩
]
/-! ### traceql/transpiler/clickhouse_transpiler/all_values_request_planner.go -/
def f_traceql_transpiler_clickhouse_transpiler_all_values_request_planner : List Entry := [
  -- AllValuesRequestPlanner.Process | raw |  | ctx.TracesKVDistTable «»
  ⟨15495959057372197141, sql, [config], ""⟩
]
/-! ### traceql/transpiler/clickhouse_transpiler/attr_condition.go -/
def f_traceql_transpiler_clickhouse_transpiler_attr_condition : List Entry := [
  -- AttrConditionPlanner.Process | raw |  | fmt.Sprintf("unhex('%s')", tid) «»
  ⟨7592020180284991187, sql, [nested], ""⟩,
  -- AttrConditionPlanner.Process | sprintf | unhex('%s') | tid «range#1 ctx.CachedTraceIds»
  ⟨1909483035078272860, sql, [dbHexQ], "cached trace ids: hex text read from the database (hypothesis CtxOK.cached of plan_closed_traceql)"⟩,
  -- AttrConditionPlanner.Process | raw |  | fmt.Sprintf("cityHash64(trace_id) %% %d", ctx.RandomFilter.Max) «»
  ⟨6394878462011828931, sql, [nested], ""⟩,
  -- AttrConditionPlanner.Process | sprintf | cityHash64(trace_id) %% %d | ctx.RandomFilter.Max «»
  ⟨15656491718429146321, sql, [number], ""⟩,
  -- AttrConditionPlanner.Process | raw |  | fmt.Sprintf("cityHash64(trace_id) %% %d", ctx.RandomFilter.Max) «»
  ⟨6394878462011828931, sql, [nested], ""⟩,
  -- AttrConditionPlanner.Process | sprintf | cityHash64(trace_id) %% %d | ctx.RandomFilter.Max «»
  ⟨15656491718429146321, sql, [number], ""⟩,
  -- AttrConditionPlanner.getCond | raw |  | a.alias «»
  ⟨12362970499198543097, sql, [alias], "a.alias is the literal bsCond"⟩,
  -- AttrConditionPlanner.getTermNum | concat | not supported operator: %s | t.Op «»
  ⟨707578182619851214, notSql, [other], ""⟩,
  -- AttrConditionPlanner.getTermStr | concat | not supported operator: %s | t.Op «»
  ⟨14519263280186713177, notSql, [other], ""⟩,
  -- bitSet.String | stringer |  | 
  ⟨15748863485501624648, marker, [], ""⟩,
  -- bitSet.String | sprintf | bitShiftLeft(toUInt64(%s),%d) | strTerm «#0 of term.String(ctx, options...)»; i «range#0 b.terms»
  ⟨6120907750129683410, sql, [rendered, number], ""⟩,
  -- bitAnd.String | stringer |  | 
  ⟨2769573718939775495, marker, [], ""⟩,
  -- bitAnd.String | sprintf | bitAnd(%s,%s) | strLeft «#0 of b.left.String(ctx, options...)»; strRight «#0 of b.right.String(ctx, options...)»
  ⟨15286107857740613814, sql, [rendered, rendered], ""⟩,
  -- groupBitOr.String | stringer |  | 
  ⟨12577479219524819494, marker, [], ""⟩,
  -- groupBitOr.String | sprintf | groupBitOr(%s) | strLeft «#0 of b.left.String(ctx, options...)»
  ⟨15717245179502489716, sql, [rendered], ""⟩,
  -- groupBitOr.String | sprintf | %s as %s | res «fmt.Sprintf("groupBitOr(%s)", strLeft) | fmt.Sprintf("%s as %s", res, b.alias)»; b.alias «»
  ⟨10521012882663093962, sql, [nested, alias], ""⟩,
  -- matchRe.String | stringer |  | 
  ⟨4673940606329644651, marker, [], ""⟩,
  -- matchRe.String | sprintf | match(%s,%s) | field «#0 of m.field.String(ctx, options...)»; strRe «#0 of sql.NewStringVal(m.re).String(ctx, options...)»
  ⟨8340887156528825533, sql, [rendered, escaped], ""⟩,
  -- sqlAttrValue.String | stringer |  | 
  ⟨17995373415759596339, marker, [], ""⟩,
  -- sqlAttrValue.String | sprintf | anyIf(toFloat64OrNull(val), key == %s) | attr «#0 of sql.NewStringVal(s.attr).String(ctx, options...)»
  ⟨7137347845409298544, sql, [escaped], ""⟩
]
/-! ### traceql/transpiler/clickhouse_transpiler/attrless.go -/
def f_traceql_transpiler_clickhouse_transpiler_attrless : List Entry := [
  -- AttrlessConditionPlanner.Process | simplecol |  | tracesTable «ctx.TracesTable»; "traces" «const»
  ⟨1155531493573459339, sql, [config, codeText], ""⟩,
  -- AttrlessConditionPlanner.Process | simplecol |  | tracesTable «ctx.TracesTable»; "traces" «const»
  ⟨1155531493573459339, sql, [config, codeText], ""⟩,
  -- AttrlessConditionPlanner.Process | simplecol |  | withTraceAndSpanIds.GetAlias() + ".span_id" «»; "_span_id" «const»
  ⟨18186828455358669421, sql, [alias, codeText], ""⟩,
  -- AttrlessConditionPlanner.Process | simplecol |  | tracesTable «ctx.TracesTable»; "traces" «const»
  ⟨1155531493573459339, sql, [config, codeText], ""⟩
]
/-! ### traceql/transpiler/clickhouse_transpiler/complex_and.go -/
def f_traceql_transpiler_clickhouse_transpiler_complex_and : List Entry := [
  -- ComplexAndPlanner.Process | withalias |  | fmt.Sprintf("_%d_pre_", i) «»
  ⟨5990963039865655749, sql, [nested], ""⟩,
  -- ComplexAndPlanner.Process | sprintf | _%d_pre_ | i «range#0 c.Operands»
  ⟨14132783138265818578, sql, [number], ""⟩,
  -- ComplexAndPlanner.Process | simplecol |  | fmt.Sprintf("%d", i) «»; "_op" «const»
  ⟨724590368623135298, sql, [nested, codeText], ""⟩,
  -- ComplexAndPlanner.Process | sprintf | %d | i «range#0 c.Operands»
  ⟨5333412569278214408, sql, [number], ""⟩,
  -- ComplexAndPlanner.Process | simplecol |  | with.GetAlias() + ".span_id" «»; "_span_id" «const»
  ⟨631339202175886385, sql, [alias, codeText], ""⟩,
  -- ComplexAndPlanner.Process | colalias |  | c.Prefix + "a" «»
  ⟨7840440980979478108, sql, [alias], ""⟩
]
/-! ### traceql/transpiler/clickhouse_transpiler/complex_eval_or.go -/
def f_traceql_transpiler_clickhouse_transpiler_complex_eval_or : List Entry := [
  -- ComplexEvalOrPlanner.Process | colalias |  | c.Prefix + "a" «»
  ⟨11258363707448924771, sql, [alias], ""⟩
]
/-! ### traceql/transpiler/clickhouse_transpiler/complex_or.go -/
def f_traceql_transpiler_clickhouse_transpiler_complex_or : List Entry := [
  -- ComplexOrPlanner.Process | withalias |  | fmt.Sprintf("_%d_pre_", i) «»
  ⟨3090601041041121555, sql, [nested], ""⟩,
  -- ComplexOrPlanner.Process | sprintf | _%d_pre_ | i «range#0 c.Operands»
  ⟨16122876008890737796, sql, [number], ""⟩,
  -- ComplexOrPlanner.Process | simplecol |  | with.GetAlias() + ".span_id" «»; "_span_id" «const»
  ⟨9777827499056061603, sql, [alias, codeText], ""⟩,
  -- ComplexOrPlanner.Process | colalias |  | c.Prefix + "a" «»
  ⟨1498562408855094534, sql, [alias], ""⟩,
  -- union.String | stringer |  | 
  ⟨3119559068088251159, marker, [], ""⟩,
  -- union.String | sprintf | (%s) | strings.Join(strSelects, " UNION ALL ") «»
  ⟨18109093967729924003, sql, [rendered], ""⟩
]
/-! ### traceql/transpiler/clickhouse_transpiler/index_groupby.go -/
def f_traceql_transpiler_clickhouse_transpiler_index_groupby : List Entry := [
  -- IndexGroupByPlanner.Process | withalias |  | i.Prefix + "index_search" «»
  ⟨347054245305983658, sql, [alias], ""⟩,
  -- IndexGroupByPlanner.Process | raw |  | fmt.Sprintf("max(%sindex_search.timestamp_ns)", i.Prefix) «»
  ⟨8807903252276326184, sql, [nested], ""⟩,
  -- IndexGroupByPlanner.Process | sprintf | max(%sindex_search.timestamp_ns) | i.Prefix «»
  ⟨13542881990100948344, sql, [alias], ""⟩
]
/-! ### traceql/transpiler/clickhouse_transpiler/init.go -/
def f_traceql_transpiler_clickhouse_transpiler_init : List Entry := [
  -- InitIndexPlanner.Process | simplecol |  | table «ctx.TracesAttrsTable | ctx.TracesAttrsDistTable»; "traces_idx" «const»
  ⟨12829413833304050391, sql, [config, codeText], ""⟩
]
/-! ### traceql/transpiler/clickhouse_transpiler/planner.go -/
def f_traceql_transpiler_clickhouse_transpiler_planner : List Entry := [
  -- planner.getPrefix | sprintf | _%d | p.prefix «»
  ⟨13305132744760293977, sql, [number], "the alias prefix of a sub-expression"⟩
]
/-! ### traceql/transpiler/clickhouse_transpiler/select_tags_planner.go -/
def f_traceql_transpiler_clickhouse_transpiler_select_tags_planner : List Entry := [
  -- SelectTagsPlanner.Process | simplecol |  | ctx.TracesAttrsDistTable «»; "traces_idx" «const»
  ⟨1631318489022467440, sql, [config, codeText], ""⟩
]
/-! ### traceql/transpiler/clickhouse_transpiler/shared.go -/
def f_traceql_transpiler_clickhouse_transpiler_shared : List Entry := [
  -- getComparisonFn | concat | not supported operator: %s | op «param»
  ⟨5385732044073527338, notSql, [other], ""⟩
]
/-! ### traceql/transpiler/clickhouse_transpiler/traces_data.go -/
def f_traceql_transpiler_clickhouse_transpiler_traces_data : List Entry := [
  -- TracesDataPlanner.Process | simplecol |  | ctx.TracesTable «»; "traces" «const»
  ⟨5450753983326355349, sql, [config, codeText], ""⟩,
  -- TracesDataPlanner.Process | simplecol |  | table «ctx.TracesTable | ctx.TracesDistTable»; "traces" «const»
  ⟨13954191636475841846, sql, [config, codeText], ""⟩,
  -- TracesDataPlanner.Process | raw |  | withTracesInfo.GetAlias() + ".trace_id" «»
  ⟨6306755797856950514, sql, [alias], ""⟩
]
/-! ### traceql/transpiler/reqest_processor.go -/
def f_traceql_transpiler_reqest_processor : List Entry := [
  -- TraceQLRequestProcessor.Process | sprintf | %d | startTimeUnixNano «var»
  ⟨6552344908276478669, notSql, [other], "response text"⟩,
  -- TraceQLRequestProcessor.Process | sprintf | %d | durationsNs[i] «»
  ⟨16574376554761547674, notSql, [other], "response text"⟩,
  -- TraceQLRequestProcessor.Process | sprintf | %d | timestampsNs[i] «»
  ⟨8666286960215892288, notSql, [other], "response text"⟩
]
/-! ### utils/dbVersion/version.go -/
def f_utils_dbVersion_version : List Entry := [
  -- GetVersionInfo | sprintf | SELECT argMax(name, inserted_at) as _name , argMax(value, inserted_at) as _value \nFROM %s WHERE type='update' GROUP BY fingerprint HAVING _name!='' | tableName «"settings" | += "_dist" | var»
  ⟨3672027077060602084, sql, [config], "settings / settings_dist"⟩,
  -- GetVersionInfo | sprintf | SHOW TABLES | 
  ⟨1388504702449457060, sql, [], ""⟩
]
/-! ### utils/logger/logger.go -/
def f_utils_logger_logger : List Entry := [
  -- qrynFormatter.Run | sprintf | %v | stream «map[string]string{}»
  ⟨1334408403723104410, notSql, [other], ""⟩
]
/-! ### utils/sql_select/condition.go -/
def f_utils_sql_select_condition : List Entry := [
  -- LogicalOp.String | stringer |  | 
  ⟨12660548724771576065, marker, [], ""⟩,
  -- LogicalOp.String | concat | (%s) | s «#0 of c.String(ctx, options...)»
  ⟨2413400770348461969, sql, [rendered], ""⟩,
  -- LogicalOp.String | concat |  %s  | op.fn «»
  ⟨14941966413811110632, sql, [codeText], "op.fn: and / or / == … set by the constructors of condition.go; NewGenericLogicalOp call sites are entries"⟩,
  -- CNot.String | stringer |  | 
  ⟨10662678744799123359, marker, [], ""⟩,
  -- CNot.String | sprintf | !(%s) | str «#0 of n.expr.String(ctx, options...)»
  ⟨4552089691884094482, sql, [rendered], ""⟩,
  -- CNotNull.String | stringer |  | 
  ⟨11776089109764195660, marker, [], ""⟩,
  -- CNotNull.String | sprintf | %s IS NOT NULL | str «#0 of c.expr.String(ctx, options...)»
  ⟨17234670306863557400, sql, [rendered], ""⟩
]
/-! ### utils/sql_select/objects.go -/
def f_utils_sql_select_objects : List Entry := [
  -- RawObject.String | stringer |  | 
  ⟨5945972698036749791, marker, [], ""⟩,
  -- FmtRawObject | sprintf | ≠lit:tmpl | arg «param»
  ⟨10833124526443241987, dead, [other], ""⟩,
  -- OrderBy.String | stringer |  | 
  ⟨2096976006587566371, marker, [], ""⟩,
  -- OrderBy.String | sprintf | %s %s | str «#0 of o.col.String(ctx, options...)»; order «"desc" | "asc"»
  ⟨14641160617328564736, sql, [rendered, codeText], ""⟩,
  -- With.String | stringer |  | 
  ⟨14592159038735114410, marker, [], ""⟩,
  -- With.String | sprintf | %s as (%s) | w.alias «»; str «#0 of w.query.String(ctx, options...)»
  ⟨14065508822606926843, sql, [alias, rendered], ""⟩,
  -- WithRef.String | stringer |  | 
  ⟨4463935420413559455, marker, [], ""⟩,
  -- WithRef.String | concat | (%s) | str «#0 of w.ref.GetQuery().String(ctx, _opts...)»
  ⟨15818404257328984716, sql, [rendered], ""⟩,
  -- WithRef.String | concat |  as %s | w.ref.alias «»
  ⟨17650330612538051091, sql, [alias], ""⟩,
  -- Join.String | stringer |  | 
  ⟨15024499026583332346, marker, [], ""⟩,
  -- Join.String | concat | ON %s | _on «#0 of l.on.String(ctx, options...)»
  ⟨1001319419582495607, sql, [rendered], ""⟩,
  -- Join.String | sprintf | %s %s | tbl «#0 of l.table.String(ctx, options...)»; on «"" | += "ON " + _on»
  ⟨12195900472557205496, sql, [rendered, nested], "on = \"\" or \"ON \" ++ the rendered condition (the concat site above)"⟩,
  -- CtxParam.String | stringer |  | 
  ⟨6744376745613920884, marker, [], ""⟩,
  -- StringVal.String | stringer |  | 
  ⟨12816628663148053516, marker, [], ""⟩,
  -- StringVal.String | concat | '%s' | res «s.val | strings.Replace(res, v, replace[i], -1)»
  ⟨14567990515191886722, escape, [other], "the escaping routine: Sql.quote, C10.stringval_single_literal"⟩,
  -- IntVal.String | stringer |  | 
  ⟨992892258640069742, marker, [], ""⟩,
  -- IntVal.String | sprintf | %d | i.val «»
  ⟨6080406027922474659, sql, [number], ""⟩,
  -- BoolVal.String | stringer |  | 
  ⟨9874157679183837937, marker, [], ""⟩,
  -- FloatVal.String | stringer |  | 
  ⟨9642472986790177993, marker, [], ""⟩,
  -- FloatVal.String | sprintf | %f | f.val «»
  ⟨11466400849517226081, sql, [number], ""⟩,
  -- Col.String | stringer |  | 
  ⟨6208370028657276234, marker, [], ""⟩,
  -- Col.String | sprintf | %s | expr «#0 of c.expr.String(ctx, _opts...)»
  ⟨8098022209756729893, sql, [rendered], ""⟩,
  -- Col.String | sprintf | %s as %s | expr «#0 of c.expr.String(ctx, _opts...)»; c.alias «»
  ⟨7422666840531330722, sql, [rendered, alias], ""⟩,
  -- NewSimpleCol | raw |  | name «param»
  ⟨13246670146020187367, sql, [param], ""⟩,
  -- In.String | stringer |  | 
  ⟨11538818606644000831, marker, [], ""⟩,
  -- In.String | sprintf | %s IN (%s) | str «#0 of e.String(ctx, options...) | #0 of in.leftSide.String(ctx, options...)»; strings.Join(parts, ",") «»
  ⟨16603536473787549433, sql, [rendered, rendered], ""⟩,
  -- CustomCol.String | stringer |  | 
  ⟨17168729381630161777, marker, [], ""⟩
]
/-! ### utils/sql_select/select.go -/
def f_utils_sql_select_select : List Entry := [
  -- Select.String | stringer |  | 
  ⟨2726572402330367040, marker, [], ""⟩,
  -- Select.String | write |  | str «#0 of w.String(ctx, _options...) | #0 of col.String(ctx, options...) | var | #0 of s.from.String(ctx, options...) | #0 of lj.String(ctx, options...) | #0 of s.preWhere.String(ctx, options...) | #0 of s.where.String(ctx, options...) | #0 of f.String(ctx, option…»
  ⟨17323468111513887142, sql, [rendered], ""⟩,
  -- Select.String | write |  | str «#0 of w.String(ctx, _options...) | #0 of col.String(ctx, options...) | var | #0 of s.from.String(ctx, options...) | #0 of lj.String(ctx, options...) | #0 of s.preWhere.String(ctx, options...) | #0 of s.where.String(ctx, options...) | #0 of f.String(ctx, option…»
  ⟨17323468111513887142, sql, [rendered], ""⟩,
  -- Select.String | write |  | str «#0 of w.String(ctx, _options...) | #0 of col.String(ctx, options...) | var | #0 of s.from.String(ctx, options...) | #0 of lj.String(ctx, options...) | #0 of s.preWhere.String(ctx, options...) | #0 of s.where.String(ctx, options...) | #0 of f.String(ctx, option…»
  ⟨17323468111513887142, sql, [rendered], ""⟩,
  -- Select.String | write |  | fmt.Sprintf(" %s JOIN ", lj.tp) «»
  ⟨12819151902132965333, sql, [nested], ""⟩,
  -- Select.String | sprintf |  %s JOIN  | lj.tp «»
  ⟨16817334157516205064, sql, [codeText], "join type: NewJoin call sites are entries"⟩,
  -- Select.String | write |  | str «#0 of w.String(ctx, _options...) | #0 of col.String(ctx, options...) | var | #0 of s.from.String(ctx, options...) | #0 of lj.String(ctx, options...) | #0 of s.preWhere.String(ctx, options...) | #0 of s.where.String(ctx, options...) | #0 of f.String(ctx, option…»
  ⟨17323468111513887142, sql, [rendered], ""⟩,
  -- Select.String | write |  | str «#0 of w.String(ctx, _options...) | #0 of col.String(ctx, options...) | var | #0 of s.from.String(ctx, options...) | #0 of lj.String(ctx, options...) | #0 of s.preWhere.String(ctx, options...) | #0 of s.where.String(ctx, options...) | #0 of f.String(ctx, option…»
  ⟨17323468111513887142, sql, [rendered], ""⟩,
  -- Select.String | write |  | str «#0 of w.String(ctx, _options...) | #0 of col.String(ctx, options...) | var | #0 of s.from.String(ctx, options...) | #0 of lj.String(ctx, options...) | #0 of s.preWhere.String(ctx, options...) | #0 of s.where.String(ctx, options...) | #0 of f.String(ctx, option…»
  ⟨17323468111513887142, sql, [rendered], ""⟩,
  -- Select.String | write |  | str «#0 of w.String(ctx, _options...) | #0 of col.String(ctx, options...) | var | #0 of s.from.String(ctx, options...) | #0 of lj.String(ctx, options...) | #0 of s.preWhere.String(ctx, options...) | #0 of s.where.String(ctx, options...) | #0 of f.String(ctx, option…»
  ⟨17323468111513887142, sql, [rendered], ""⟩,
  -- Select.String | write |  | str «#0 of w.String(ctx, _options...) | #0 of col.String(ctx, options...) | var | #0 of s.from.String(ctx, options...) | #0 of lj.String(ctx, options...) | #0 of s.preWhere.String(ctx, options...) | #0 of s.where.String(ctx, options...) | #0 of f.String(ctx, option…»
  ⟨17323468111513887142, sql, [rendered], ""⟩,
  -- Select.String | write |  | str «#0 of w.String(ctx, _options...) | #0 of col.String(ctx, options...) | var | #0 of s.from.String(ctx, options...) | #0 of lj.String(ctx, options...) | #0 of s.preWhere.String(ctx, options...) | #0 of s.where.String(ctx, options...) | #0 of f.String(ctx, option…»
  ⟨17323468111513887142, sql, [rendered], ""⟩,
  -- Select.String | write |  | str «#0 of w.String(ctx, _options...) | #0 of col.String(ctx, options...) | var | #0 of s.from.String(ctx, options...) | #0 of lj.String(ctx, options...) | #0 of s.preWhere.String(ctx, options...) | #0 of s.where.String(ctx, options...) | #0 of f.String(ctx, option…»
  ⟨17323468111513887142, sql, [rendered], ""⟩,
  -- Select.String | write |  | str «#0 of w.String(ctx, _options...) | #0 of col.String(ctx, options...) | var | #0 of s.from.String(ctx, options...) | #0 of lj.String(ctx, options...) | #0 of s.preWhere.String(ctx, options...) | #0 of s.where.String(ctx, options...) | #0 of f.String(ctx, option…»
  ⟨17323468111513887142, sql, [rendered], ""⟩,
  -- Select.String | write |  | k «range#0 s.settings»
  ⟨10781233383145153480, sql, [config], ""⟩,
  -- Select.String | write |  | v «range#1 s.settings»
  ⟨3254443320291081976, sql, [config], ""⟩
]
/-! ### utils/tables/tables.go -/
def f_utils_tables_tables : List Entry := [
  -- PopulateTableNames | sprintf | `%s`.%s | db.Config.Name «»; tsGinTable «GetTableName("time_series_gin") | fmt.Sprintf("`%s`.%s", db.Config.Name, tsGinTable)»
  ⟨1545911162154289512, sql, [configBq, config], ""⟩,
  -- PopulateTableNames | sprintf | `%s`.%s_dist | db.Config.Name «»; samplesTableName «GetTableName("samples_v3") | fmt.Sprintf("`%s`.%s_dist", db.Config.Name, samplesTableName)»
  ⟨2753530809760827709, sql, [configBq, config], ""⟩,
  -- PopulateTableNames | sprintf | `%s`.%s | db.Config.Name «»; timeSeriesTableName «GetTableName("time_series") | fmt.Sprintf("`%s`.%s", db.Config.Name, timeSeriesTableName)»
  ⟨11716944461524234251, sql, [configBq, config], ""⟩,
  -- PopulateTableNames | sprintf | `%s`.%s_dist | db.Config.Name «»; timeSeriesDistTableName «GetTableName("time_series") | fmt.Sprintf("`%s`.%s_dist", db.Config.Name, timeSeriesDistTableName)»
  ⟨4000543879175431655, sql, [configBq, config], ""⟩,
  -- PopulateTableNames | sprintf | `%s`.%s_dist | db.Config.Name «»; metrics15sTableName «GetTableName("metrics_15s") | fmt.Sprintf("`%s`.%s_dist", db.Config.Name, metrics15sTableName)»
  ⟨5370261612601606013, sql, [configBq, config], ""⟩,
  -- PopulateTableNames | sprintf | `%s`.%s_dist | db.Config.Name «»; ctx.ProfilesSeriesGinTable «»
  ⟨7177789848031545016, sql, [configBq, config], ""⟩,
  -- PopulateTableNames | sprintf | `%s`.%s_dist | db.Config.Name «»; ctx.ProfilesTable «»
  ⟨13400171532809493351, sql, [configBq, config], ""⟩,
  -- PopulateTableNames | sprintf | `%s`.%s_dist | db.Config.Name «»; ctx.ProfilesSeriesTable «»
  ⟨10494019400864731282, sql, [configBq, config], ""⟩,
  -- PopulateTableNames | sprintf | `%s`.%s_dist | db.Config.Name «»; ctx.TracesAttrsTable «»
  ⟨2109492802559295453, sql, [configBq, config], ""⟩,
  -- PopulateTableNames | sprintf | `%s`.%s_dist | db.Config.Name «»; ctx.TracesTable «»
  ⟨11148999323226143767, sql, [configBq, config], ""⟩,
  -- PopulateTableNames | sprintf | `%s`.%s_dist | db.Config.Name «»; ctx.TracesKVTable «»
  ⟨2164461622733131042, sql, [configBq, config], ""⟩
]
/-! ### utils/unmarshal/convert.go -/
def f_utils_unmarshal_convert : List Entry := [
  -- SpanToJSONSpan | sprintf | %v | attr.Value.GetBoolValue() «»
  ⟨6230710823377430806, notSql, [other], ""⟩,
  -- SpanToJSONSpan | sprintf | %v | attr.Value.GetIntValue() «»
  ⟨17199200156298986567, notSql, [other], ""⟩,
  -- SpanToJSONSpan | sprintf | %v | attr.Value.GetDoubleValue() «»
  ⟨10683261193567142755, notSql, [other], ""⟩
]

def files : List (String × List Entry) := [("controller/profController.go", f_controller_profController), ("controller/promQueryRangeController.go", f_controller_promQueryRangeController), ("controller/tempoController.go", f_controller_tempoController), ("dbRegistry/registry.go", f_dbRegistry_registry), ("logql/logql_parser/model_v2.go", f_logql_logql_parser_model_v2), ("logql/logql_parser/parser.go", f_logql_logql_parser_parser), ("logql/logql_transpiler_v2/clickhouse_planner/planner_by_without.go", f_logql_logql_transpiler_v2_clickhouse_planner_planner_by_without), ("logql/logql_transpiler_v2/clickhouse_planner/planner_drop.go", f_logql_logql_transpiler_v2_clickhouse_planner_planner_drop), ("logql/logql_transpiler_v2/clickhouse_planner/planner_drop_simple.go", f_logql_logql_transpiler_v2_clickhouse_planner_planner_drop_simple), ("logql/logql_transpiler_v2/clickhouse_planner/planner_label_filter.go", f_logql_logql_transpiler_v2_clickhouse_planner_planner_label_filter), ("logql/logql_transpiler_v2/clickhouse_planner/planner_label_format.go", f_logql_logql_transpiler_v2_clickhouse_planner_planner_label_format), ("logql/logql_transpiler_v2/clickhouse_planner/planner_labels_joiner.go", f_logql_logql_transpiler_v2_clickhouse_planner_planner_labels_joiner), ("logql/logql_transpiler_v2/clickhouse_planner/planner_line_filter.go", f_logql_logql_transpiler_v2_clickhouse_planner_planner_line_filter), ("logql/logql_transpiler_v2/clickhouse_planner/planner_line_format.go", f_logql_logql_transpiler_v2_clickhouse_planner_planner_line_format), ("logql/logql_transpiler_v2/clickhouse_planner/planner_lra.go", f_logql_logql_transpiler_v2_clickhouse_planner_planner_lra), ("logql/logql_transpiler_v2/clickhouse_planner/planner_main_finalizer.go", f_logql_logql_transpiler_v2_clickhouse_planner_planner_main_finalizer), ("logql/logql_transpiler_v2/clickhouse_planner/planner_main_init.go", f_logql_logql_transpiler_v2_clickhouse_planner_planner_main_init), ("logql/logql_transpiler_v2/clickhouse_planner/planner_main_order_by.go", f_logql_logql_transpiler_v2_clickhouse_planner_planner_main_order_by), ("logql/logql_transpiler_v2/clickhouse_planner/planner_main_renew.go", f_logql_logql_transpiler_v2_clickhouse_planner_planner_main_renew), ("logql/logql_transpiler_v2/clickhouse_planner/planner_metrics15s_shortcut.go", f_logql_logql_transpiler_v2_clickhouse_planner_planner_metrics15s_shortcut), ("logql/logql_transpiler_v2/clickhouse_planner/planner_parser.go", f_logql_logql_transpiler_v2_clickhouse_planner_planner_parser), ("logql/logql_transpiler_v2/clickhouse_planner/planner_parser_json.go", f_logql_logql_transpiler_v2_clickhouse_planner_planner_parser_json), ("logql/logql_transpiler_v2/clickhouse_planner/planner_parser_regexp.go", f_logql_logql_transpiler_v2_clickhouse_planner_planner_parser_regexp), ("logql/logql_transpiler_v2/clickhouse_planner/planner_quantile.go", f_logql_logql_transpiler_v2_clickhouse_planner_planner_quantile), ("logql/logql_transpiler_v2/clickhouse_planner/planner_series.go", f_logql_logql_transpiler_v2_clickhouse_planner_planner_series), ("logql/logql_transpiler_v2/clickhouse_planner/planner_simple_label_filter.go", f_logql_logql_transpiler_v2_clickhouse_planner_planner_simple_label_filter), ("logql/logql_transpiler_v2/clickhouse_planner/planner_step_fix.go", f_logql_logql_transpiler_v2_clickhouse_planner_planner_step_fix), ("logql/logql_transpiler_v2/clickhouse_planner/planner_stream_select.go", f_logql_logql_transpiler_v2_clickhouse_planner_planner_stream_select), ("logql/logql_transpiler_v2/clickhouse_planner/planner_time_series_init.go", f_logql_logql_transpiler_v2_clickhouse_planner_planner_time_series_init), ("logql/logql_transpiler_v2/clickhouse_planner/planner_topk.go", f_logql_logql_transpiler_v2_clickhouse_planner_planner_topk), ("logql/logql_transpiler_v2/clickhouse_planner/planner_unwrap.go", f_logql_logql_transpiler_v2_clickhouse_planner_planner_unwrap), ("logql/logql_transpiler_v2/clickhouse_planner/planner_unwrap_function.go", f_logql_logql_transpiler_v2_clickhouse_planner_planner_unwrap_function), ("logql/logql_transpiler_v2/clickhouse_planner/planner_values.go", f_logql_logql_transpiler_v2_clickhouse_planner_planner_values), ("logql/logql_transpiler_v2/clickhouse_planner/planner_with_connector.go", f_logql_logql_transpiler_v2_clickhouse_planner_planner_with_connector), ("logql/logql_transpiler_v2/clickhouse_planner/sql_misc.go", f_logql_logql_transpiler_v2_clickhouse_planner_sql_misc), ("logql/logql_transpiler_v2/internal_planner/planner_parser.go", f_logql_logql_transpiler_v2_internal_planner_planner_parser), ("logql/logql_transpiler_v2/shared/path_parser.go", f_logql_logql_transpiler_v2_shared_path_parser), ("main.go", f_main), ("prof/transpiler/planner_filter_labels.go", f_prof_transpiler_planner_filter_labels), ("prof/transpiler/planner_get_labels.go", f_prof_transpiler_planner_get_labels), ("prof/transpiler/planner_label_generic.go", f_prof_transpiler_planner_label_generic), ("prof/transpiler/planner_merge_profiles.go", f_prof_transpiler_planner_merge_profiles), ("prof/transpiler/planner_merge_raw.go", f_prof_transpiler_planner_merge_raw), ("prof/transpiler/planner_profiles_size.go", f_prof_transpiler_planner_profiles_size), ("prof/transpiler/planner_select_all_time_series.go", f_prof_transpiler_planner_select_all_time_series), ("prof/transpiler/planner_select_series.go", f_prof_transpiler_planner_select_series), ("prof/transpiler/planner_select_time_series.go", f_prof_transpiler_planner_select_time_series), ("prof/transpiler/planner_selector.go", f_prof_transpiler_planner_selector), ("prof/transpiler/planner_union_all.go", f_prof_transpiler_planner_union_all), ("promql/transpiler/hints_downsample_planner.go", f_promql_transpiler_hints_downsample_planner), ("promql/transpiler/init_clickhouse_planner.go", f_promql_transpiler_init_clickhouse_planner), ("promql/transpiler/init_downsample_clickhouse_planner.go", f_promql_transpiler_init_downsample_clickhouse_planner), ("promql/transpiler/shared.go", f_promql_transpiler_shared), ("promql/transpiler/transpiler.go", f_promql_transpiler_transpiler), ("promql/transpiler/transpilerDownsample.go", f_promql_transpiler_transpilerDownsample), ("promql/transpiler/union_planner.go", f_promql_transpiler_union_planner), ("service/profMerge_v1.go", f_service_profMerge_v1), ("service/profService.go", f_service_profService), ("service/promQueryable.go", f_service_promQueryable), ("service/queryLabelsService.go", f_service_queryLabelsService), ("service/queryRangeService.go", f_service_queryRangeService), ("service/tempoService.go", f_service_tempoService), ("tempo/sqlIndexQuery.go", f_tempo_sqlIndexQuery), ("tempo/tracesQuery.go", f_tempo_tracesQuery), ("traceql/transpiler/clickhouse_transpiler/aggregator.go", f_traceql_transpiler_clickhouse_transpiler_aggregator), ("traceql/transpiler/clickhouse_transpiler/all_tags_request_planner.go", f_traceql_transpiler_clickhouse_transpiler_all_tags_request_planner), ("traceql/transpiler/clickhouse_transpiler/all_values_request_planner.go", f_traceql_transpiler_clickhouse_transpiler_all_values_request_planner), ("traceql/transpiler/clickhouse_transpiler/attr_condition.go", f_traceql_transpiler_clickhouse_transpiler_attr_condition), ("traceql/transpiler/clickhouse_transpiler/attrless.go", f_traceql_transpiler_clickhouse_transpiler_attrless), ("traceql/transpiler/clickhouse_transpiler/complex_and.go", f_traceql_transpiler_clickhouse_transpiler_complex_and), ("traceql/transpiler/clickhouse_transpiler/complex_eval_or.go", f_traceql_transpiler_clickhouse_transpiler_complex_eval_or), ("traceql/transpiler/clickhouse_transpiler/complex_or.go", f_traceql_transpiler_clickhouse_transpiler_complex_or), ("traceql/transpiler/clickhouse_transpiler/index_groupby.go", f_traceql_transpiler_clickhouse_transpiler_index_groupby), ("traceql/transpiler/clickhouse_transpiler/init.go", f_traceql_transpiler_clickhouse_transpiler_init), ("traceql/transpiler/clickhouse_transpiler/planner.go", f_traceql_transpiler_clickhouse_transpiler_planner), ("traceql/transpiler/clickhouse_transpiler/select_tags_planner.go", f_traceql_transpiler_clickhouse_transpiler_select_tags_planner), ("traceql/transpiler/clickhouse_transpiler/shared.go", f_traceql_transpiler_clickhouse_transpiler_shared), ("traceql/transpiler/clickhouse_transpiler/traces_data.go", f_traceql_transpiler_clickhouse_transpiler_traces_data), ("traceql/transpiler/reqest_processor.go", f_traceql_transpiler_reqest_processor), ("utils/dbVersion/version.go", f_utils_dbVersion_version), ("utils/logger/logger.go", f_utils_logger_logger), ("utils/sql_select/condition.go", f_utils_sql_select_condition), ("utils/sql_select/objects.go", f_utils_sql_select_objects), ("utils/sql_select/select.go", f_utils_sql_select_select), ("utils/tables/tables.go", f_utils_tables_tables), ("utils/unmarshal/convert.go", f_utils_unmarshal_convert)]
def entries : List Entry := files.flatMap (·.2)
end Qryn.RawSql.Table
