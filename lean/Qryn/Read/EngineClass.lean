import Qryn.LogQL.SemMetric
/-! The classes of metric queries the cross-engine theorems of C09 cover, as a decidable labelling of
    (context, query) — the driver labels every case of the `engines-metric` stream with it, so the evidence shows how many
    cases fall under which theorem and the stream fails closed when a proved class gets no case.

    * `proved:rangeAgg[:cmp]` — `Qryn.C09.engines_agree_rangeAgg(_cmp)`: rate / count_over_time / bytes_rate / bytes_over_time;
    * `proved:unwrapAgg:<fn>` — `engines_agree_unwrapAgg` without grouping clause, `proved:byWithout:<fn>` — with one
      (`engines_agree_byWithout`), fn ∈ rate, sum/avg/min/max/first/last_over_time;
    * `proved-stage:vectorAgg:<fn>[:ungrouped]` — `engines_agree_vectorAgg` (the vector aggregation stage over the same
      matrix; the composition with the inner range aggregation is stream-checked);
    * `refused-in-process:<what>` — only ClickHouse implements it (stddev/stdvar(_over_time), topk/bottomk);
    * `finding:step-above-range` — excluded by the exact hypothesis of `step_independent_of_engine_partial`;
    * `stream-checked:<what>` — no theorem (a comparison after an unwrap function). -/
namespace Qryn.Read
open Qryn Qryn.LogQL

def unwrapFnName : LogQL.UnwrapFn → String
  | .rate => "rate" | .sumOT => "sum_over_time" | .avgOT => "avg_over_time" | .maxOT => "max_over_time"
  | .minOT => "min_over_time" | .firstOT => "first_over_time" | .lastOT => "last_over_time"
  | .stdvarOT => "stdvar_over_time" | .stddevOT => "stddev_over_time"

def aggFnName : LogQL.AggFn → String
  | .sum => "sum" | .min => "min" | .max => "max" | .avg => "avg" | .stddev => "stddev" | .stdvar => "stdvar" | .count => "count"

/-- both engines implement the unwrap function (`Read.toUnwrap` has a value for its in-process name) -/
def bothUnwrap : LogQL.UnwrapFn → Bool
  | .stdvarOT | .stddevOT => false
  | _ => true

def bothVec : LogQL.AggFn → Bool
  | .stddev | .stdvar => false
  | _ => true

def rangeClass (r : RangeAgg) : String :=
  match r.kind with
  | .lra _ => if r.cmp.isSome then "proved:rangeAgg:cmp" else "proved:rangeAgg"
  | .unwrap fn _ =>
    if !bothUnwrap fn then "refused-in-process:" ++ unwrapFnName fn
    else if r.cmp.isSome then "stream-checked:unwrap+cmp"
    else match chosenGrouping r.byPrefix r.bySuffix with
      | some _ => "proved:byWithout:" ++ unwrapFnName fn
      | none => "proved:unwrapAgg:" ++ unwrapFnName fn

def engineClass (c : MCtx) (q : MetricQuery) : String :=
  if (q.rangeAgg.durNs : Int) < c.stepNs then "finding:step-above-range" else
  match q with
  | .range r => rangeClass r
  | .agg a =>
    if !bothVec a.fn then "refused-in-process:" ++ aggFnName a.fn
    else "proved-stage:vectorAgg:" ++ aggFnName a.fn ++
      (match chosenGrouping a.byPrefix a.bySuffix with | some _ => "" | none => ":ungrouped")
  | .topk _ => "refused-in-process:topk"

end Qryn.Read
