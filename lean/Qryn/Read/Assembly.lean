import Qryn.Read.Cursor
/-! Series assembly: model of the row loop of `CLokiQuerier.Select` (reader/service/promQueryable.go).

    ```go
    for rows.Next() {
        rows.Scan(&fp, &val, &ts)
        if len(res.Series) == 0 || fp != lastLabels {
            lblsGetter.Plan(fp); lastLabels = fp
            res.Series = append(res.Series, &model.Series{Fp: fp, Samples: make([]model.Sample, 0, 500)})
        }
        res.Series[len(res.Series)-1].Samples = append(res.Series[len(res.Series)-1].Samples, model.Sample{ts, val})
    }
    ```
    (`q.MapResult` is nil on the raw-sample path.) One scanned row = one `step`; the index expression
    `res.Series[len(res.Series)-1]` is an `Option` lookup (`none` = Go panic). `ReshuffleSeries` follows
    below (`reshuffle`); the final `sort.Slice` (a permutation of the series) is not part of this model;
    labels are looked up by the series' own `Fp` (`Series.Labels()`). Core-only. -/
namespace Qryn.Read.Assembly
open Qryn.Read.Cursor

/-- one row of the sample query: `fingerprint, value, timestamp_ms` -/
structure Row where
  fp : Nat
  val : Int
  ts : Int
deriving DecidableEq, Repr

/-- `model.Series{Fp, Samples}` -/
structure Series where
  fp : Nat
  samples : List Sample
deriving DecidableEq, Repr

/-- loop state: `res.Series`, `lastLabels` -/
structure St where
  series : List Series
  last : Nat
deriving Repr

def sampleOf (r : Row) : Sample := ⟨r.ts, r.val⟩

/-- `res.Series[len-1].Samples = append(res.Series[len-1].Samples, x)`; `none` = index −1 out of range -/
def appendToLast (ss : List Series) (x : Sample) : Option (List Series) :=
  match ss.getLast? with
  | none => none
  | some s => some (ss.dropLast ++ [{ s with samples := s.samples ++ [x] }])

/-- one iteration of the scan loop -/
def step (st : St) (r : Row) : Option St :=
  let st1 : St :=
    if st.series.length == 0 || r.fp != st.last then
      { series := st.series ++ [⟨r.fp, []⟩], last := r.fp }
    else st
  (appendToLast st1.series (sampleOf r)).map (fun ss => { st1 with series := ss })

def scan (st : St) : List Row → Option St
  | [] => some st
  | r :: rs => match step st r with
    | none => none
    | some st' => scan st' rs

/-- the series handed on by the loop, in scan order (`none` = the loop panicked) -/
def assemble (rows : List Row) : Option (List Series) :=
  (scan ⟨[], 0⟩ rows).map (·.series)

/-! ## `ReshuffleSeries` (after `fix: a label set stored under two fingerprints …`)

    ```go
    res := make([]*model.Series, 0, len(series))
    for _, ent := range series {
        _fp := cityHash64(join(labels of ent.Fp))          // the key: the label set
        if chunk, ok := seriesMap[_fp]; ok {
            chunk.Samples = append(chunk.Samples, ent.Samples...)
            sort.Slice(chunk.Samples, by TimestampMs)
        } else { seriesMap[_fp] = ent; res = append(res, ent) }
    }
    return res
    ```
    `key fp` stands for the label set of a fingerprint (any type with decidable equality). `sort.Slice` is
    not stable: the model sorts stably, which agrees with Go up to the order of samples with equal
    timestamps coming from different fingerprints. -/

def sortTs (l : List Sample) : List Sample := l.mergeSort (fun a b => decide (a.ts ≤ b.ts))

def mergeInto {K : Type} [DecidableEq K] (key : Nat → K) (res : List Series) (ent : Series) : List Series :=
  if res.any (fun s => key s.fp == key ent.fp) then
    res.map (fun s => if key s.fp = key ent.fp then { s with samples := sortTs (s.samples ++ ent.samples) } else s)
  else res ++ [ent]

def reshuffle {K : Type} [DecidableEq K] (key : Nat → K) (ss : List Series) : List Series :=
  ss.foldl (mergeInto key) []

/-- all samples handed out under label set `k` -/
def samplesOfKey {K : Type} [DecidableEq K] (key : Nat → K) (k : K) (ss : List Series) : List Sample :=
  (ss.filter (fun s => key s.fp == k)).flatMap (·.samples)

/-- the rows a series stands for -/
def rowsOf (s : Series) : List Row := s.samples.map (fun x => ⟨s.fp, x.v, x.ts⟩)

/-- all series laid end to end -/
def flat (ss : List Series) : List Row := ss.flatMap rowsOf

end Qryn.Read.Assembly
