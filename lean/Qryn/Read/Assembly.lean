import Qryn.Read.Cursor
/-! Series assembly: model of the row loop of `CLokiQuerier.Select` (reader/service/promQueryable.go).

    ```go
    for rows.Next() {
        rows.Scan(&fp, &val, &ts)
        if len(res.Series) == 0 || fp != lastLabels {
            lblsGetter.Plan(fp); lastLabels = fp
            res.Series = append(res.Series, &model.Series{Fp: fp, Samples: make([]model.Sample, 0, 500)})
        }
        res.Series[len(res.Series)-1].Samples = append(res.Series[len(res.Series)-1].Samples, model.Sample{ts, val})
    }
    ```
    (`q.MapResult` is nil on the raw-sample path.) One scanned row = one `step`; the index expression
    `res.Series[len(res.Series)-1]` is an `Option` lookup (`none` = Go panic). The later `ReshuffleSeries`
    (a no-op unless two fingerprints carry the same label set) and `sort.Slice` (a permutation of the series)
    are not part of this model; labels are looked up by the series' own `Fp` (`Series.Labels()`). Core-only. -/
namespace Qryn.Read.Assembly
open Qryn.Read.Cursor

/-- one row of the sample query: `fingerprint, value, timestamp_ms` -/
structure Row where
  fp : Nat
  val : Int
  ts : Int
deriving DecidableEq, Repr

/-- `model.Series{Fp, Samples}` -/
structure Series where
  fp : Nat
  samples : List Sample
deriving DecidableEq, Repr

/-- loop state: `res.Series`, `lastLabels` -/
structure St where
  series : List Series
  last : Nat
deriving Repr

def sampleOf (r : Row) : Sample := ⟨r.ts, r.val⟩

/-- `res.Series[len-1].Samples = append(res.Series[len-1].Samples, x)`; `none` = index −1 out of range -/
def appendToLast (ss : List Series) (x : Sample) : Option (List Series) :=
  match ss.getLast? with
  | none => none
  | some s => some (ss.dropLast ++ [{ s with samples := s.samples ++ [x] }])

/-- one iteration of the scan loop -/
def step (st : St) (r : Row) : Option St :=
  let st1 : St :=
    if st.series.length == 0 || r.fp != st.last then
      { series := st.series ++ [⟨r.fp, []⟩], last := r.fp }
    else st
  (appendToLast st1.series (sampleOf r)).map (fun ss => { st1 with series := ss })

def scan (st : St) : List Row → Option St
  | [] => some st
  | r :: rs => match step st r with
    | none => none
    | some st' => scan st' rs

/-- the series handed on by the loop, in scan order (`none` = the loop panicked) -/
def assemble (rows : List Row) : Option (List Series) :=
  (scan ⟨[], 0⟩ rows).map (·.series)

/-- the rows a series stands for -/
def rowsOf (s : Series) : List Row := s.samples.map (fun x => ⟨s.fp, x.v, x.ts⟩)

/-- all series laid end to end -/
def flat (ss : List Series) : List Row := ss.flatMap rowsOf

end Qryn.Read.Assembly
