import Qryn.Read.Internal
/-! `shared.JsonPathParamToTypedArray` (reader/logql/logql_transpiler_v2/shared/path_parser.go): the text of a
    parser parameter (`| json name="<text>"`) ↦ the typed path `[]any` of strings and ints the in-process engine
    walks. The Go code lexes with `text/scanner` (GoTokens mode, Go white space) and parses with a participle
    grammar `Path = Part+`, `Part = "."? Ident | "[" (String | RawString) "]" | "[" Int "]"`.

    Modelled fragment (everything else is `outside`, reported separately by the correspondence):
    ASCII identifiers `[A-Za-z_][A-Za-z0-9_]*`; decimal integers without a leading zero (or `0` itself), at most
    18 digits, not followed directly by a letter, `_` or `.` (hex, float and exponent syntax of the Go scanner);
    `"…"` and `` `…` `` strings of printable ASCII without `"`, `\\`, `` ` ``; the punctuation `.` `[` `]`; blank,
    tab, CR, LF between tokens; any other printable ASCII punctuation except `/` and `'` is a token the grammar has
    no use for (a parse error wherever it stands). Core only. -/
namespace Qryn.Read
open Qryn

inductive PTok
  | dot | lbr | rbr
  | ident (s : Bytes)
  | str (s : Bytes)        -- contents of a quoted or raw string
  | int (n : Nat)
  | other
deriving DecidableEq, Repr

inductive PathParse
  | ok (p : List PathSeg)
  | err                      -- JsonPathParamToTypedArray returns an error
  | outside                  -- text outside the modelled fragment
deriving DecidableEq, Repr

def isIdStart (c : UInt8) : Bool := (97 ≤ c && c ≤ 122) || (65 ≤ c && c ≤ 90) || c == 95
def isDigit (c : UInt8) : Bool := 48 ≤ c && c ≤ 57
def isBlank (c : UInt8) : Bool := c == 32 || c == 9 || c == 10 || c == 13

/-- the tokens of a text, `none` when it leaves the fragment. `fuel` ≥ length of the text. -/
def ptoks : Nat → Bytes → Option (List PTok)
  | 0, [] => some []
  | 0, _ :: _ => none
  | _ + 1, [] => some []
  | fuel + 1, c :: cs =>
    if isBlank c then ptoks fuel cs
    else if isIdStart c then
      let name := c :: cs.takeWhile isLabelChar
      (ptoks fuel (cs.dropWhile isLabelChar)).map (PTok.ident name :: ·)
    else if isDigit c then
      let ds := c :: cs.takeWhile isDigit
      let rest := cs.dropWhile isDigit
      if (c == 48 && ds.length > 1) || ds.length > 18 then none
      else match rest with
        | r :: _ => if isLabelChar r || r == 46 then none
                    else (ptoks fuel rest).map (PTok.int (ds.foldl (fun n d => n * 10 + (d.toNat - 48)) 0) :: ·)
        | [] => some [PTok.int (ds.foldl (fun n d => n * 10 + (d.toNat - 48)) 0)]
    else if c == 34 || c == 96 then
      let body := cs.takeWhile (fun x => x != c)
      match cs.dropWhile (fun x => x != c) with
      | _ :: rest =>
        if body.all (fun x => 32 ≤ x && x < 127 && x != 92 && x != 34 && x != 96) then (ptoks fuel rest).map (PTok.str body :: ·)
        else none
      | [] => none                       -- unterminated literal: the scanner reports an error; left outside
    else if c == 46 then
      match cs with
      | d :: _ => if isDigit d then none else (ptoks fuel cs).map (PTok.dot :: ·)     -- `.5` is a float to the scanner
      | [] => some [PTok.dot]
    else if c == 91 then (ptoks fuel cs).map (PTok.lbr :: ·)
    else if c == 93 then (ptoks fuel cs).map (PTok.rbr :: ·)
    else if c == 47 || c == 39 || c < 32 || 127 ≤ c then none     -- comments, char literals, control and non-ASCII bytes
    else (ptoks fuel cs).map (PTok.other :: ·)

/-- `Path = Part+` over the tokens; `n` = parts parsed so far -/
def pparts : List PTok → List PathSeg → Option (List PathSeg)
  | [], acc => if acc.isEmpty then none else some acc.reverse
  | .dot :: .ident s :: rest, acc => pparts rest (.key s :: acc)
  | .ident s :: rest, acc => pparts rest (.key s :: acc)
  | .lbr :: .str s :: .rbr :: rest, acc => pparts rest (.key s :: acc)
  | .lbr :: .int n :: .rbr :: rest, acc => pparts rest (.idx n :: acc)
  | _, _ => none

def parsePath (text : Bytes) : PathParse :=
  match ptoks text.length text with
  | none => .outside
  | some ts => match pparts ts [] with
    | some p => .ok p
    | none => .err

/-- the parameters of a parser stage as `internal_planner.Plan` + `ParserPlanner.Process` make them from the
    script: names and path texts in source order; an unparsable path fails `Process` (the query is not run) -/
def planParams (ps : List (Bytes × Bytes)) : Option (Option (List Ahead)) :=   -- none: outside; some none: error
  ps.foldr (fun nv acc => match acc, parsePath nv.2 with
    | none, _ => none
    | _, .outside => none
    | some none, _ => some none
    | some (some _), .err => some none
    | some (some rest), .ok p => some (some ((nv.1, p) :: rest))) (some (some []))

end Qryn.Read
