import Qryn.Read.Confine
/-! C13, the SIGNAL half: a structural predicate `signalConfined cfg tp s` — every scan of a table that has a `type`
    column (Loki samples, the 15 s rollup, both label indexes) carries the filter `type IN (tp, 0)` where `tp` is the signal
    of the API that was called (1 logs, 2 metrics; 0 = rows written before the column existed, both) — the VALUES of the
    list are examined, not only that a filter is there; the only scan allowed without it is an INDEX scan restricted to the
    fingerprints of a selection that is itself signal-confined (the label filters of the LogQL fingerprint chain read
    `time_series` by `fingerprint IN (subsel_k)`: the rows reached are index rows of series selected under the signal; a
    data table — samples, rollup — has no such exception). The window is not looked at: `Confine.confined` does that. -/
namespace Qryn.Confine
open Qryn Qryn.Sql

/-- the window-free view of `isTypeFilter`: `type IN (tp, 0)` -/
def sigWin (tp : Int) : Window := ⟨0, 0, 0, true, tp⟩
def isSignalFilter (tp : Int) (e : Expr) : Bool := isTypeFilter (sigWin tp) e

/-- a condition that compares the `type` column at all -/
def mentionsType : Expr → Bool
  | .isIn (.raw c) _ => c == "type" || c == "samples.type" || c == "time_series.type"
  | .logical fn cs => fn != "and" && fn != "or" && (match cs with | [.raw c, _] => c == "type" || c == "samples.type" || c == "time_series.type" | _ => false)
  | _ => false

/-- One SELECT is signal-confined, given the aliases already known to be signal-confined id selections. -/
def bodySignal (cfg : Cfg) (tp : Int) (okFp : List Alias) : Sel → Bool
  | .mk _ _ _ from_ _ pre wher _ _ _ _ =>
    match fromTable from_ with
    | none => true
    | some t =>
      let cs := conjuncts pre ++ conjuncts wher
      !cfg.typed t || cs.any (isSignalFilter tp) ||
        (match cfg.kind t with
         | .index => cs.any (fun e => match fpIn e with | some a => okFp.contains a | none => false)
         | _ => false)

def withsSignal (cfg : Cfg) (tp : Int) : List Alias → List (Alias × Sel) → Bool
  | _, [] => true
  | ok, (a, s) :: rest =>
    bodySignal cfg tp ok s && withsSignal cfg tp (if isIndexSelection cfg s || derivesFrom ok s then a :: ok else ok) rest

/-- every scan of a typed table in the statement is restricted to the API's signal -/
def signalConfined (cfg : Cfg) (tp : Int) : Sel → Bool
  | .mk ws d c f j p wh g h ob l =>
    withsSignal cfg tp [] ws && bodySignal cfg tp (okAfter cfg [] ws) (.mk ws d c f j p wh g h ob l)

/-- … for statements with set operations in FROM / a union as a WITH query: each operand on its own (driver, dumps) -/
def signalDeep (cfg : Cfg) (tp : Int) : Nat → Sel → Bool
  | 0, _ => false
  | fuel + 1, s =>
    signalConfined cfg tp s && (fromSetop (fromOf s)).all (signalDeep cfg tp fuel) &&
      (withsOf s).all (fun e => (fromSetop (fromOf e.2)).all (signalDeep cfg tp fuel))

/-- what the predicate asks of the classification: a table with a `type` column is a data or an index table, and is not
    one of the tables that may be read by ids instead (the span table) -/
def TypedCfg (cfg : Cfg) : Prop := ∀ t, cfg.typed t = true → cfg.kind t ≠ .other ∧ cfg.byId t = false

end Qryn.Confine
