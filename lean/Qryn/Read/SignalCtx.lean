import Qryn.Gen.CtxTypes
/-! C13, signal half: which `PlannerContext.Type` each reader entry point hands to the planners, read off the regenerated
    inventory of `shared.PlannerContext{…}` literals (`Gen.CtxTypes`). The table `entryKinds` is hand-written (which API an entry
    point serves); the `Type:` texts, the labelsType arguments of the controllers, the constants and the shape of `GetTypes`
    are regenerated. A literal in a function the table does not know has no kind: `literalOk` is false for it. -/
namespace Qryn.SignalCtx
open Qryn

inductive EntryKind
  | logs       -- a Loki read API: the signal is 1
  | metrics    -- the Prometheus storage adapter: the signal is 2
  | byArg      -- the label services: `Type: uint8(labelsType)`, the signal is the controller's argument
  | untyped    -- TraceQL / Pyroscope entry points: their planners read no table with a `type` column
deriving DecidableEq, Repr

/-- (file, function) ↦ the API the entry point serves -/
def entryKinds : List ((String × String) × EntryKind) :=
  [(("reader/service/queryRangeService.go", "prepareOutput"), .logs),
   (("reader/service/queryRangeService.go", "Tail"), .logs),
   (("reader/service/promQueryable.go", "transpileLabelMatchers"), .metrics),
   (("reader/service/queryLabelsService.go", "PromLabels"), .byArg),
   (("reader/service/queryLabelsService.go", "values"), .byArg),
   (("reader/service/queryLabelsService.go", "series"), .byArg),
   (("reader/prof/planner.go", "plannerCtx"), .untyped),
   (("reader/service/tempoService.go", "TagsV2"), .untyped),
   (("reader/service/tempoService.go", "ValuesV2"), .untyped),
   (("reader/service/tempoServiceTraceQL.go", "SearchTraceQL"), .untyped)]

def kindOf (x : String × String × String) : Option EntryKind := entryKinds.lookup (x.1, x.2.1)

def cLogs : Nat := Gen.sampleTypeConsts.1
def cMetrics : Nat := Gen.sampleTypeConsts.2.1
def cBoth : Nat := Gen.sampleTypeConsts.2.2

/-- the value of a `Type:` text: absent = the zero value; the literals 0, 1, 2; one of the three constants -/
def typeValue (s : String) : Option Nat :=
  if s = "<unset>" then some 0
  else if s = "shared.SAMPLES_TYPE_LOGS" then some cLogs
  else if s = "shared.SAMPLES_TYPE_METRICS" then some cMetrics
  else if s = "shared.SAMPLES_TYPE_BOTH" then some cBoth
  else if s = "0" then some 0 else if s = "1" then some 1 else if s = "2" then some 2
  else none   -- any other expression: not a value this table can read (fails closed)

/-- the `Type` values the entry points of a kind build their contexts with -/
def entryTypes (k : EntryKind) : List (Option Nat) :=
  (Gen.plannerCtxLiterals.filter (fun x => kindOf x == some k)).map (fun x => typeValue x.2.2)

/-- the labelsType arguments the controllers of a file pass -/
def labelArgs (file : String) : List (Option Nat) :=
  (Gen.labelsTypeArgs.filter (fun x => x.1 == file)).map (fun x => typeValue x.2.2)

def literalOk (x : String × String × String) : Bool :=
  match kindOf x with
  | some .logs => typeValue x.2.2 == some cLogs || (typeValue x.2.2 == some cBoth && Gen.getTypesUnsetMeansLogs)
  | some .metrics => typeValue x.2.2 == some cMetrics
  | some .byArg => x.2.2 == "uint8(labelsType)"
  | some .untyped => true
  | none => false

end Qryn.SignalCtx
