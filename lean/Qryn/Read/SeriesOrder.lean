import Qryn.Read.Assembly
import Qryn.Base.Bytes
/-! The order of the `SeriesSet` `CLokiQuerier.Select` returns: model of the comparator of the final `sort.Slice`
    (reader/service/promQueryable.go)

    ```go
    sort.Slice(res.Series, func(i, j int) bool {
        for k, l1 := range res.Series[i].Labels() {
            l2 := res.Series[j].Labels()
            if k >= len(l2) { return false }
            if l1.Name != l2[k].Name { return l1.Name < l2[k].Name }
            if l1.Value != l2[k].Value { return l1.Value < l2[k].Value }
        }
        return true
    })
    ```
    over label sets sorted by name (`labelsGetter.Get`). Go compares strings byte-wise. The comparator answers `true` for
    two equal label sets (it is the non-strict lexicographic order); `ReshuffleSeries` has made the label sets pairwise
    distinct before. `sort.Slice` (pdqsort, not stable) is modelled by `List.mergeSort`: for pairwise distinct elements and
    a total order every correct sorting algorithm returns the same list. Core-only. -/
namespace Qryn.Read.SeriesOrder
open Qryn

/-- Go `a < b` on strings: byte-wise lexicographic, a proper prefix is smaller -/
def strLt : Bytes → Bytes → Bool
  | [], [] => false
  | [], _ :: _ => true
  | _ :: _, [] => false
  | a :: as, b :: bs => a < b || (a == b && strLt as bs)

abbrev Labels := List (Bytes × Bytes)

/-- the comparator of the `sort.Slice` in `Select` -/
def lessSeries : Labels → Labels → Bool
  | [], _ => true
  | _ :: _, [] => false
  | l1 :: r1, l2 :: r2 =>
    if l1.1 != l2.1 then strLt l1.1 l2.1
    else if l1.2 != l2.2 then strLt l1.2 l2.2
    else lessSeries r1 r2

/-- `sort.Slice(res.Series, less)` over the label sets -/
def sortSeries (l : List Labels) : List Labels := l.mergeSort lessSeries

end Qryn.Read.SeriesOrder
