import Qryn.LogQL.Sem
/-! Model of the in-process LogQL engine: reader/logql/logql_transpiler_v2/internal_planner/*.go and
    `GetBreakpoint`/`breakScript` of reader/logql/logql_transpiler_v2/planner.go (tree with the C09 fixes).

    A stage is a function on `List (List Entry)`: the messages of the Go channel, each a batch of
    `shared.LogEntry`. `run` mirrors `GenericPlanner.WrapProcess` (planner_generic.go): for every batch
    `OnEntry` on each element (entries are mutated in place), then `OnAfterEntriesSlice`; after the last
    batch `OnAfterEntries`; an error other than `io.EOF` returned by `OnEntry` replaces the rest of the
    output by one batch holding one error entry. The state a stage carries across calls (the `_entries`
    accumulator of the filters, `sent` of the limit, the map and counter of the optimizer, the series map
    of the aggregator) is the explicit `σ`.

    Not modelled (abstract, shared with the specification): RE2 (`Oracles.reMatch`), float parsing and
    arithmetic (`NumOps`), the jx JSON decoder (`Env.jsonDecode`: the tree the decoder walks, cut at the
    point where it fails), kr/logfmt (`Env.logfmtDecode`: the `HandleLogfmt` calls it makes), text/template
    (`Env.tpl`), CityHash64 (`Env.hash`). Go map iteration order: the series map is an association list in
    first-insertion order; the property does not constrain the order in which series are emitted. Core-only. -/
namespace Qryn.Read
open Qryn Qryn.Sql Qryn.LogQL

abbrev Labels := List (Bytes × Bytes)

/-- `Err` of a `shared.LogEntry`: `io.EOF` (end-of-stream marker of the ClickHouse getter), an upstream
    error (scan error), or an error raised by a stage -/
inductive Err
  | eof
  | upstream (tag : Nat)
  | tooManySeries
deriving DecidableEq, Repr

structure Entry (V : Type) where
  ts : Int
  fp : UInt64
  labels : Labels
  msg : Bytes
  val : V
  err : Option Err

/-- float64 as far as the engine uses it; the driver instantiates it with binary64, the theorems hold for any -/
structure NumOps (V : Type) where
  zero : V
  one : V
  add : V → V → V
  div : V → V → V
  lt : V → V → Bool
  le : V → V → Bool
  eq : V → V → Bool
  ofNat : Nat → V
  parse : Bytes → Option V           -- strconv.ParseFloat(s, 64)
  durSeconds : Int → V                -- float64(d.Nanoseconds()) / 1e9 for a duration in ns (was: float64(d.Milliseconds()) / 1000, truncating; fixed)

/- the value the jx decoder walks. `bad` is the point where decoding fails; nothing after it is visited. -/
mutual
inductive JVal
  | obj (text : Bytes) (kvs : JKvs)      -- `text`: the source text of the value (what `Decoder.Raw` returns for it)
  | arr (text : Bytes) (xs : JList)
  | str (s : Bytes)
  | raw (text : Bytes)      -- number, true, false, null: kept as source text
  | bad
inductive JKvs
  | nil
  | cons (k : Bytes) (v : JVal) (rest : JKvs)
inductive JList
  | nil
  | cons (v : JVal) (rest : JList)
end

structure Env (V : Type) where
  o : Oracles
  num : NumOps V
  jsonDecode : Bytes → JVal
  jsonValid : Bytes → Bool                 -- jx.Valid: the line as a whole is one JSON document
  logfmtDecode : Bytes → List (Bytes × Bytes)
  tpl : Bytes → Labels → Option Bytes     -- template text, data (labels + `_entry`) ↦ output; none = Execute failed
  hash : Bytes → UInt64                    -- city.CH64

/-! ### label maps -/
def Labels.get (l : Labels) (k : Bytes) : Bytes := (l.lookup k).getD []

/-- `m[k] = v`: replace where the key is, else insert keeping the list sorted by key -/
def Labels.set : Labels → Bytes → Bytes → Labels
  | [], k, v => [(k, v)]
  | (k', v') :: rest, k, v =>
    if k' = k then (k, v) :: rest
    else if k < k' then (k, v) :: (k', v') :: rest
    else (k', v') :: Labels.set rest k v

/-! ### hash.go -/
/-- `binary.LittleEndian.PutUint64(b, uint64(n))` -/
def le64 (n : Nat) : Bytes := (List.range 8).map (fun i => UInt8.ofNat (n / 256 ^ i % 256))

/-- the text handed to CityHash for one label: name length, name, value -/
def encodePair (kv : Bytes × Bytes) : Bytes := le64 kv.1.length ++ kv.1 ++ kv.2

def u64le (x : UInt64) : Bytes := le64 x.toNat

/-- `fingerprint`: sum, xor and an odd-multiplier product of the pair hashes (all three commutative, so
    the map order does not matter), hashed again -/
def fingerprint (hash : Bytes → UInt64) (l : Labels) : UInt64 :=
  let hs := l.map (fun kv => hash (encodePair kv))
  let s := hs.foldl (· + ·) 0
  let x := hs.foldl (· ^^^ ·) 0
  let p := hs.foldl (fun acc h => acc * (1779033703 + 2 * h)) 1
  hash (u64le s ++ u64le x ++ u64le p)

/-! ### planner_generic.go -/
structure Ops (V σ : Type) where
  onEntry : σ → Entry V → Except Err (σ × Entry V)
  afterSlice : σ → List (Entry V) → σ × List (List (Entry V))
  afterAll : σ → List (List (Entry V))

def errEntry {V} (N : NumOps V) (e : Err) : Entry V := ⟨0, 0, [], [], N.zero, some e⟩

/-- the `for i := range entries { ops.OnEntry(&entries[i]) }` loop: new state and the mutated batch -/
def runBatch {V σ} (ops : Ops V σ) : σ → List (Entry V) → Except Err (σ × List (Entry V))
  | s, [] => .ok (s, [])
  | s, e :: es =>
    match ops.onEntry s e with
    | .error x => .error x
    | .ok (s', e') =>
      match runBatch ops s' es with
      | .error x => .error x
      | .ok (s'', es') => .ok (s'', e' :: es')

/-- `WrapProcess`: the batches sent to `out` -/
def run {V σ} (N : NumOps V) (ops : Ops V σ) : σ → List (List (Entry V)) → List (List (Entry V))
  | s, [] => ops.afterAll s
  | s, b :: bs =>
    match runBatch ops s b with
    | .error x => [[errEntry N x]]
    | .ok (s', b') =>
      let r := ops.afterSlice s' b'
      r.2 ++ run N ops r.1 bs

/-- stages that decide per entry whether a (possibly rewritten) copy goes to the `_entries` accumulator,
    which is sent and reset after every batch (line filter, label filter, comparison, line_format) -/
def accOps {V} (f : Entry V → Option (Entry V)) : Ops V (List (Entry V)) where
  onEntry acc e := .ok (match f e with | some e' => acc ++ [e'] | none => acc, e)
  afterSlice acc _ := ([], [acc])
  afterAll _ := []

/-- stages that rewrite the entry in place and forward the batch (parser, label_format, drop, unwrap, by/without) -/
def mapOps {V} (f : Entry V → Entry V) : Ops V Unit where
  onEntry _ e := .ok ((), f e)
  afterSlice _ b := ((), [b])
  afterAll _ := []

/-! ### planner_line_filter.go -/
def lineCompare (o : Oracles) (op : LineOp) (val msg : Bytes) : Bool :=
  match op with
  | .contains => LogQL.contains val msg
  | .notContains => !LogQL.contains val msg
  | .re => o.reMatch val msg
  | .nre => !o.reMatch val msg

def lineFilterFn {V} (o : Oracles) (op : LineOp) (val : Bytes) (e : Entry V) : Option (Entry V) :=
  if e.err.isSome || lineCompare o op val e.msg then some e else none

/-! ### planner_label_filter.go -/
def labelFn (o : Oracles) (m : Labels) : LabelCond → Bool
  | .str l op v =>
    let x := m.get l.toUTF8.toList
    (match op with
     | .eq => v == x
     | .neq => v != x
     | .re => o.reMatch v x
     | .nre => !o.reMatch v x)
  | .num l op v =>
    let x := m.get l.toUTF8.toList
    if x.isEmpty then false else o.isNum x && o.numCmp (cmpName op) x (numText v)
  | .and a b => labelFn o m a && labelFn o m b
  | .or a b => labelFn o m a || labelFn o m b

def labelFilterFn {V} (o : Oracles) (c : LabelCond) (e : Entry V) : Option (Entry V) :=
  if labelFn o e.labels c then some e else none

/-! ### planner_parser.go, planner_parser_json.go, planner_parser_logfmt.go -/
def isLabelChar (c : UInt8) : Bool :=
  (97 ≤ c && c ≤ 122) || (65 ≤ c && c ≤ 90) || (48 ≤ c && c ≤ 57) || c == 95

/-- `sanitizeLabel`: every character outside `[a-zA-Z0-9_]` becomes `_` (a character = a run of one lead
    byte and its UTF-8 continuation bytes; the generators keep names ASCII, where it is bytewise) -/
def sanitizeLabel (s : Bytes) : Bytes :=
  (s.filter (fun c => !(128 ≤ c && c < 192))).map (fun c => if isLabelChar c then c else 95)

def joinPrefix (pfx key : Bytes) : Bytes := if pfx.isEmpty then key else pfx ++ [95] ++ key

/- `Skip()` fails iff the skipped value contains the failure point -/
mutual
def hasBad : JVal → Bool
  | .obj _ kvs => hasBadKvs kvs
  | .arr _ xs => hasBadList xs
  | .bad => true
  | _ => false
def hasBadKvs : JKvs → Bool
  | .nil => false
  | .cons _ v rest => hasBad v || hasBadKvs rest
def hasBadList : JList → Bool
  | .nil => false
  | .cons v rest => hasBad v || hasBadList rest
end

/- `subDec`: labels so far and whether decoding is still going -/
mutual
def subDecVal (pfx : Bytes) (acc : Labels × Bool) : JVal → Labels × Bool
  | .obj _ kvs => subDecKvs pfx acc kvs
  | .str s => (acc.1.set (sanitizeLabel pfx) s, true)
  | .arr _ xs => (acc.1, !hasBadList xs)   -- d.Skip()
  | .raw t => (acc.1.set (sanitizeLabel pfx) t, true)
  | .bad => (acc.1, false)
def subDecKvs (pfx : Bytes) (acc : Labels × Bool) : JKvs → Labels × Bool
  | .nil => acc
  | .cons k v rest =>
    let r := subDecVal (joinPrefix pfx k) acc v
    if r.2 then subDecKvs pfx r rest else r
end

/-- `ParserPlanner.json`: only an object is looked into -/
def jsonAll (doc : JVal) (l : Labels) : Labels :=
  match doc with
  | .obj _ kvs => (subDecKvs [] (l, true) kvs).1
  | _ => l

/-- one step of a JSON path parameter: a key or an array index -/
inductive PathSeg
  | key (k : Bytes)
  | idx (i : Nat)
deriving DecidableEq, Repr

abbrev Ahead := Bytes × List PathSeg      -- label to set, remaining path

/-- `filterAhead` followed by the `path[1:]` loop -/
def aheadsFor (seg : PathSeg) (as : List Ahead) : List Ahead :=
  as.filterMap (fun a => match a.2 with
    | s :: rest => if s = seg then some (a.1, rest) else none
    | [] => none)

def setAll (l : Labels) (as : List Ahead) (v : Bytes) : Labels :=
  as.foldl (fun acc a => if a.2.isEmpty then acc.set a.1 v else acc) l

/-- the aheads whose path goes on (`deeper` in `process`) -/
def deeperOf (as : List Ahead) : List Ahead := as.filter (fun a => !a.2.isEmpty)

/- `jsonPathProcessor.process / processObject / processArray`. An object or an array some path *ends* at is read
   as a whole (`dec.Raw()`, fails iff the value contains the failure point), its text goes to the aheads whose path is
   exhausted, and the aheads that go on are followed inside that text. -/
mutual
def jppVal (as : List Ahead) (acc : Labels × Bool) : JVal → Labels × Bool
  | .obj text kvs =>
    if (deeperOf as).length < as.length then
      if hasBadKvs kvs then (acc.1, false)
      else if (deeperOf as).isEmpty then (setAll acc.1 as text, true)
      else jppKvs (deeperOf as) (setAll acc.1 as text, true) kvs
    else if as.isEmpty then (acc.1, !hasBadKvs kvs) else jppKvs as acc kvs
  | .arr text xs =>
    if (deeperOf as).length < as.length then
      if hasBadList xs then (acc.1, false)
      else if (deeperOf as).isEmpty then (setAll acc.1 as text, true)
      else jppArr (deeperOf as) 0 (setAll acc.1 as text, true) xs
    else if as.isEmpty then (acc.1, !hasBadList xs) else jppArr as 0 acc xs
  | .str s => (setAll acc.1 as s, true)
  | .raw t => (setAll acc.1 as t, true)
  | .bad => (acc.1, false)
def jppKvs (as : List Ahead) (acc : Labels × Bool) : JKvs → Labels × Bool
  | .nil => acc
  | .cons k v rest =>
    let r := if (aheadsFor (.key k) as).isEmpty then (acc.1, !hasBad v) else jppVal (aheadsFor (.key k) as) acc v
    if r.2 then jppKvs as r rest else r
def jppArr (as : List Ahead) (i : Nat) (acc : Labels × Bool) : JList → Labels × Bool
  | .nil => acc
  | .cons v rest =>
    let r := if (aheadsFor (.idx i) as).isEmpty then (acc.1, !hasBad v) else jppVal (aheadsFor (.idx i) as) acc v
    if r.2 then jppArr as (i + 1) r rest else r
end

/-- what the walk found: label ↦ value, on a map of its own (`found`); nothing when the line is not one JSON
    document (`jx.Valid`) or the walk fails -/
def jsonFound (valid : Bool) (params : List Ahead) (doc : JVal) : Labels :=
  if valid then
    let r := jppVal params ([], true) doc
    if r.2 then r.1 else []
  else []

/-- `ParserPlanner.jsonWithParams`: every named label is set — to what the walk found for it, else to "" -/
def jsonParams (valid : Bool) (params : List Ahead) (doc : JVal) (l : Labels) : Labels :=
  params.foldl (fun acc a => acc.set a.1 ((jsonFound valid params doc).get a.1)) l

/-- `logFmtParser.HandleLogfmt` over the pairs kr/logfmt reports; `fields` = first path segment ↦ label when
    the stage has parameters -/
def logfmtAll (pairs : List (Bytes × Bytes)) (l : Labels) : Labels :=
  pairs.foldl (fun acc kv => acc.set (sanitizeLabel kv.1) kv.2) l

def logfmtFields (fields : List (Bytes × Bytes)) (pairs : List (Bytes × Bytes)) (l : Labels) : Labels :=
  pairs.foldl (fun acc kv => let name := Labels.get fields kv.1; if name.isEmpty then acc else acc.set name kv.2) l

/-- `m[k] = v` on the `map[string]string` `logfmtFields` (an association list; only looked up, never ranged over) -/
def fieldsPut : List (Bytes × Bytes) → Bytes → Bytes → List (Bytes × Bytes)
  | [], k, v => [(k, v)]
  | (k', v') :: rest, k, v => if k' = k then (k, v) :: rest else (k', v') :: fieldsPut rest k v

/-- the loop of `ParserPlanner.Process` that fills `logfmtFields`: for every parameter, in order, whose typed
    path is not empty and starts with a string, `logfmtFields[path[0]] = name` — a later parameter with the same
    first segment overwrites the earlier one; parameters with an empty path or a leading index are skipped -/
def paramFields (params : List Ahead) : List (Bytes × Bytes) :=
  params.foldl (fun m a => match a.2 with
    | .key k :: _ => fieldsPut m k a.1
    | _ => m) []

inductive ParserKind
  | json
  | jsonParams (params : List Ahead)      -- `ParameterNames[i]`, `parameterTypedValues[i]`, in source order
  | logfmt
  | logfmtParams (params : List Ahead)
deriving Repr

/-- the `switch p.Op` of `ParserPlanner.Process`: `json` with parameters is `jsonWithParams`, without `json`;
    `logfmt` consults `logfmtFields`, which is non-nil exactly when there are parameters; any other parser
    (`regexp`, `pattern`, `unpack`) is answered `NotSupported` by the in-process engine -/
inductive ParserOp
  | json | logfmt | other
deriving DecidableEq, Repr

def planParser (op : ParserOp) (params : List Ahead) : Option ParserKind :=
  match op with
  | .json => some (if params.isEmpty then .json else .jsonParams params)
  | .logfmt => some (if params.isEmpty then .logfmt else .logfmtParams params)
  | .other => none

def parseLabels {V} (E : Env V) (k : ParserKind) (msg : Bytes) (l : Labels) : Labels :=
  match k with
  | .json => jsonAll (E.jsonDecode msg) l
  | .jsonParams ps => jsonParams (E.jsonValid msg) ps (E.jsonDecode msg) l
  | .logfmt => logfmtAll (E.logfmtDecode msg) l
  | .logfmtParams ps => logfmtFields (paramFields ps) (E.logfmtDecode msg) l

/-- `ParserPlanner.Process.OnEntry` (after the fix: a parse error keeps the entry) -/
def parserFn {V} (E : Env V) (k : ParserKind) (e : Entry V) : Entry V :=
  if e.err.isSome then e else
  let l := parseLabels E k e.msg e.labels
  { e with labels := l, fp := fingerprint E.hash l }

/-! ### planner_label_format.go -/
inductive FormatOp
  | const (label val : Bytes)
  | copy (label src : Bytes)
deriving DecidableEq, Repr

def formatStep (m : Labels) : FormatOp → Labels
  | .const l v => m.set l v
  | .copy l src => let v := m.get src; if v.isEmpty then m else m.set l v

def labelFormatFn {V} (E : Env V) (ops : List FormatOp) (e : Entry V) : Entry V :=
  if e.err.isSome then e else
  let l := ops.foldl formatStep e.labels
  { e with labels := l, fp := fingerprint E.hash l }

/-! ### planner_line_format.go -/
/-- the key `_entry` under which the line is handed to the template -/
def entryKey : Bytes := [95, 101, 110, 116, 114, 121]

def lineFormatFn {V} (E : Env V) (tpl : Bytes) (e : Entry V) : Option (Entry V) :=
  match E.tpl tpl (e.labels.set entryKey e.msg) with
  | some out => some { e with msg := out }
  | none => none

/-! ### planner_drop.go -/
/-- does the Go double loop delete this pair? -/
def dropped (names vals : List Bytes) (kv : Bytes × Bytes) : Bool :=
  (names.zip vals).any (fun nv => kv.1 == nv.1 && (nv.2.isEmpty || kv.2 == nv.2))

def dropFn {V} (E : Env V) (names vals : List Bytes) (e : Entry V) : Entry V :=
  if e.err.isSome then e else      -- marker entries have a nil map: `if e.Labels == nil { return nil }`
  let l := e.labels.filter (fun kv => !dropped names vals kv)
  { e with labels := l, fp := fingerprint E.hash l }

/-! ### planner_unwrap.go -/
def unwrapFn {V} (E : Env V) (label : Bytes) (e : Entry V) : Entry V :=
  if e.err.isSome then e else
  let s := if label = entryKey then e.msg else e.labels.get label
  if s.isEmpty then e else
  match E.num.parse s with
  | some v => { e with val := v }
  | none => e

/-! ### planner_by_without.go -/
def byWithoutFn {V} (E : Env V) (isBy : Bool) (names : List Bytes) (e : Entry V) : Entry V :=
  if e.err.isSome then e else      -- marker entries have a nil map: `if e.Labels == nil { return nil }`
  let l := e.labels.filter (fun kv => if isBy then names.contains kv.1 else !names.contains kv.1)
  { e with labels := l, fp := fingerprint E.hash l }

/-! ### planner_comparison.go -/
def compareVal {V} (N : NumOps V) (op : CmpOp) (x v : V) : Bool :=
  match op with
  | .gt => N.lt v x
  | .ge => N.le v x
  | .lt => N.lt x v
  | .le => N.le x v
  | .eq => N.eq x v
  | .neq => !N.eq x v

def comparisonFn {V} (N : NumOps V) (op : CmpOp) (v : V) (e : Entry V) : Option (Entry V) :=
  if compareVal N op e.val v then some e else none

/-! ### planner_limit.go (after the fix: 0 = no limit) -/
def limitOps {V} (limit : Int) : Ops V Nat where
  onEntry s e := .ok (s, e)
  afterSlice sent b :=
    if limit = 0 then (sent, [b])
    else if limit ≤ sent then (sent, [])
    else if (sent + b.length : Int) < limit then (sent + b.length, [b])
    else (limit.toNat, [b.take (limit.toNat - sent)])
  afterAll _ := []

/-! ### planner_fingerprint_optimizer.go -/
/-- `fpMap[fp] = append(fpMap[fp], e)` on an association list in first-insertion order -/
def groupAdd {V} : List (UInt64 × List (Entry V)) → Entry V → List (UInt64 × List (Entry V))
  | [], e => [(e.fp, [e])]
  | (k, es) :: rest, e => if k = e.fp then (k, es ++ [e]) :: rest else (k, es) :: groupAdd rest e

structure OptState (V : Type) where
  groups : List (UInt64 × List (Entry V))
  size : Nat

def optimizerOps {V} (threshold : Nat) : Ops V (OptState V) where
  onEntry s e := .ok (⟨groupAdd s.groups e, s.size + 1⟩, e)
  afterSlice s _ := if s.size < threshold then (s, []) else (⟨[], 0⟩, s.groups.map (·.2))
  afterAll s := if s.size = 0 then [] else s.groups.map (·.2)

/-! ### planner_generic_aggregator.go with planner_lra.go, planner_unwrap_agg.go, planner_agg_op.go -/
/-- one `[value, count]` pair of the bucket array -/
abbrev Cell (V : Type) := V × Nat

/-- what an aggregator does to the pair of the entry's bucket (`addValue`) and to the value when the stream
    is emitted (`finalize`, given the count) -/
structure AggFn (V : Type) where
  step : Cell V → Entry V → Cell V
  fin : Cell V → V

inductive RangeFn
  | rate | countOverTime | bytesRate | bytesOverTime
  | other          -- a name `LRAPlanner.addValue` has no case for: nothing is ever counted
deriving DecidableEq, Repr

inductive UnwrapFn
  | rate | sumOverTime | avgOverTime | maxOverTime | minOverTime | firstOverTime | lastOverTime
  | other          -- a name `UnwrapAggPlanner.addValue` has no case for
deriving DecidableEq, Repr

inductive VecFn
  | sum | min | max | avg | count
deriving DecidableEq, Repr

def lraFn {V} (N : NumOps V) (durNs : Int) : RangeFn → AggFn V
  | .rate => ⟨fun c _ => (N.add c.1 N.one, 1), fun c => N.div c.1 (N.durSeconds durNs)⟩
  | .countOverTime => ⟨fun c _ => (N.add c.1 N.one, 1), fun c => c.1⟩
  | .bytesRate => ⟨fun c e => (N.add c.1 (N.ofNat e.msg.length), 1), fun c => N.div c.1 (N.durSeconds durNs)⟩
  | .bytesOverTime => ⟨fun c e => (N.add c.1 (N.ofNat e.msg.length), 1), fun c => c.1⟩
  | .other => ⟨fun c _ => c, fun c => c.1⟩

def unwrapAggFn {V} (N : NumOps V) (durNs : Int) : UnwrapFn → AggFn V
  | .rate => ⟨fun c e => (N.add c.1 e.val, 1), fun c => N.div c.1 (N.durSeconds durNs)⟩
  | .sumOverTime => ⟨fun c e => (N.add c.1 e.val, 1), fun c => c.1⟩
  | .avgOverTime => ⟨fun c e => (N.add c.1 e.val, c.2 + 1), fun c => if c.2 = 0 then c.1 else N.div c.1 (N.ofNat c.2)⟩
  | .maxOverTime => ⟨fun c e => if N.lt c.1 e.val || c.2 == 0 then (e.val, 1) else c, fun c => c.1⟩
  | .minOverTime => ⟨fun c e => if N.lt e.val c.1 || c.2 == 0 then (e.val, 1) else c, fun c => c.1⟩
  | .firstOverTime => ⟨fun c e => if c.2 == 0 then (e.val, 1) else c, fun c => c.1⟩
  | .lastOverTime => ⟨fun _ e => (e.val, 1), fun c => c.1⟩
  | .other => ⟨fun c _ => c, fun c => c.1⟩

/-- `first_over_time` / `last_over_time` read `ctx.OrderASC`: the entries arrive ordered by timestamp in the direction of
    the request, so when it is descending the earliest entry of a bucket is the one that arrives last — the first
    function then overwrites on every entry (the step of `lastOverTime`), the last one keeps the first arrival -/
def dirFn (asc : Bool) : UnwrapFn → UnwrapFn
  | .firstOverTime => if asc then .firstOverTime else .lastOverTime
  | .lastOverTime => if asc then .lastOverTime else .firstOverTime
  | fn => fn

def vecFn {V} (N : NumOps V) : VecFn → AggFn V
  | .sum => ⟨fun c e => (N.add c.1 e.val, 1), fun c => c.1⟩
  | .min => ⟨fun c e => if N.lt e.val c.1 || c.2 == 0 then (e.val, 1) else c, fun c => c.1⟩
  | .max => ⟨fun c e => if N.lt c.1 e.val || c.2 == 0 then (e.val, 1) else c, fun c => c.1⟩
  | .avg => ⟨fun c e => (N.add c.1 e.val, c.2 + 1), fun c => if c.2 = 0 then c.1 else N.div c.1 (N.ofNat c.2)⟩
  | .count => ⟨fun c _ => (N.add c.1 N.one, 1), fun c => c.1⟩

/-- the window of an aggregation: start, bucket width (both ns) and number of buckets
    (`streamLen = (to − from) / duration`, Go integer division) -/
structure Grid where
  start : Int
  dur : Int
  n : Nat

def Grid.of (fromNs toNs durNs : Int) : Grid := ⟨fromNs, durNs, ((toNs - fromNs).tdiv durNs).toNat⟩

/-- `(ts − from) / duration` with the bounds check of the fix: the bucket, if it lies in the array -/
def Grid.bucket (g : Grid) (ts : Int) : Option Nat :=
  let i := (ts - g.start).tdiv g.dur
  if 0 ≤ i ∧ i.toNat < g.n then some i.toNat else none

structure AggStream (V : Type) where
  labels : Labels
  cells : List (Cell V)

abbrev AggState (V : Type) := List (UInt64 × AggStream V)

def updCell {V} (f : Cell V → Cell V) (i : Nat) (s : AggStream V) : AggStream V :=
  { s with cells := s.cells.modify i f }

/-- `OnEntry` of `AggregatorPlanner.process` -/
def aggOnEntry {V} (N : NumOps V) (maxSeries : Nat) (g : Grid) (fn : AggFn V) (st : AggState V) (e : Entry V) :
    Except Err (AggState V × Entry V) :=
  match e.err with
  | some .eof => .ok (st, e)
  | some x => .error x
  | none =>
    if st.any (·.1 == e.fp) then
      .ok (match g.bucket e.ts with
           | some i => st.map (fun ks => if ks.1 = e.fp then (ks.1, updCell (fn.step · e) i ks.2) else ks)
           | none => st, e)
    else if maxSeries ≤ st.length then .error .tooManySeries
    else
      let fresh : AggStream V := ⟨e.labels, List.replicate g.n (N.zero, 0)⟩
      .ok (st ++ [(e.fp, match g.bucket e.ts with | some i => updCell (fn.step · e) i fresh | none => fresh)], e)

/-- the entries emitted for one series: a sample for every bucket with a positive count -/
def emitStream {V} (g : Grid) (fn : AggFn V) (k : UInt64) (s : AggStream V) : List (Entry V) :=
  (s.cells.zipIdx).filterMap (fun ci =>
    if 0 < ci.1.2 then some ⟨g.start + (ci.2 : Int) * g.dur, k, s.labels, [], fn.fin ci.1, none⟩ else none)

def aggOps {V} (N : NumOps V) (maxSeries : Nat) (g : Grid) (fn : AggFn V) : Ops V (AggState V) where
  onEntry := aggOnEntry N maxSeries g fn
  afterSlice st _ := (st, [])
  afterAll st := (st.map (fun ks => emitStream g fn ks.1 ks.2)).filter (fun b => !b.isEmpty)

/-! ### planner.go (internal_planner.Plan) — the chain of stages -/
inductive StageK (V : Type)
  | line (op : LineOp) (val : Bytes)
  | labelFilter (c : LabelCond)
  | parser (k : ParserKind)
  | labelFormat (ops : List FormatOp)
  | lineFormat (tpl : Bytes)
  | drop (names vals : List Bytes)
  | unwrap (label : Bytes)

inductive AggK
  | range (fn : RangeFn)
  | unwrap (fn : UnwrapFn)
deriving Repr

structure ByWithout where
  isBy : Bool
  names : List Bytes
deriving Repr

structure Plan (V : Type) where
  stages : List (StageK V)
  agg : Option (AggK × Int)                   -- range aggregation and its duration (ns)
  aggBy : Option ByWithout                    -- by/without of the range aggregation (applied only before an unwrap aggregation)
  aggCmp : Option (CmpOp × V)
  vec : Option (VecFn × Option ByWithout × Option (CmpOp × V))

structure Ctx where
  fromNs : Int
  toNs : Int
  limit : Int
  flushAt : Nat            -- 3000 in planner_fingerprint_optimizer.go
  maxSeries : Nat          -- 2000 in planner_generic_aggregator.go
  orderAsc : Bool          -- `ctx.OrderASC` (direction=forward): the order in which the ClickHouse part sorts its rows

abbrev Batches (V : Type) := List (List (Entry V))

def runStage {V} (E : Env V) (s : StageK V) (bs : Batches V) : Batches V :=
  match s with
  | .line op val => run E.num (accOps (lineFilterFn E.o op val)) [] bs
  | .labelFilter c => run E.num (accOps (labelFilterFn E.o c)) [] bs
  | .parser k => run E.num (mapOps (parserFn E k)) () bs
  | .labelFormat ops => run E.num (mapOps (labelFormatFn E ops)) () bs
  | .lineFormat t => run E.num (accOps (lineFormatFn E t)) [] bs
  | .drop ns vs => run E.num (mapOps (dropFn E ns vs)) () bs
  | .unwrap l => run E.num (mapOps (unwrapFn E l)) () bs

def runStages {V} (E : Env V) (ss : List (StageK V)) (bs : Batches V) : Batches V :=
  ss.foldl (fun acc s => runStage E s acc) bs

def runByWithout {V} (E : Env V) (b : Option ByWithout) (bs : Batches V) : Batches V :=
  match b with
  | some bw => run E.num (mapOps (byWithoutFn E bw.isBy bw.names)) () bs
  | none => bs

def runCmp {V} (E : Env V) (c : Option (CmpOp × V)) (bs : Batches V) : Batches V :=
  match c with
  | some (op, v) => run E.num (accOps (comparisonFn E.num op v)) [] bs
  | none => bs

/-- `LRAPlanner.Process` / `UnwrapAggPlanner.Process` admit exactly the function names `addValue` has a case for; any
    other name (`stddev_over_time`, `stdvar_over_time`, `sum_over_time` without `| unwrap`, …) is answered NotSupported
    before anything runs (it used to leave every bucket empty: an empty matrix) -/
def Plan.accepted {V} (p : Plan V) : Bool :=
  match p.agg with
  | some (.range .other, _) => false
  | some (.unwrap .other, _) => false
  | _ => true

/-- `Plan` + `planAggregators` followed by `Process` on the upstream batches (of a plan `Process` accepts) -/
def runPlan {V} (E : Env V) (c : Ctx) (p : Plan V) (bs : Batches V) : Batches V :=
  let s := runStages E p.stages bs
  match p.agg with
  | none =>
    run E.num (optimizerOps c.flushAt) ⟨[], 0⟩ (run E.num (limitOps c.limit) 0 s)
  | some (k, dur) =>
    let g := Grid.of c.fromNs c.toNs dur
    let a := match k with
      | .range fn => run E.num (aggOps E.num c.maxSeries g (lraFn E.num dur fn)) [] s
      | .unwrap fn => run E.num (aggOps E.num c.maxSeries g (unwrapAggFn E.num dur (dirFn c.orderAsc fn))) [] (runByWithout E p.aggBy s)
    let a := runCmp E p.aggCmp a
    match p.vec with
    | none => a
    | some (fn, bw, cmp) =>
      runCmp E cmp (run E.num (aggOps E.num c.maxSeries g (vecFn E.num fn)) [] (runByWithout E bw a))

/-! ### logql_transpiler_v2/planner.go: where the pipeline is split -/
/-- what `GetBreakpoint` looks at in a pipeline element -/
inductive StageTag
  | line | labelFilter | jsonNoParams | jsonParams | logfmt | regexp | lineFormat | labelFormat | unwrap | drop
deriving DecidableEq, Repr

/-- ClickHouse cannot run: `json` without parameters, `logfmt`, `line_format`, `label_format` (the last one since the
    `fix:` found by C07: the ClickHouse planner has no label_format stage and used to skip it) -/
def StageTag.breaks : StageTag → Bool
  | .jsonNoParams | .logfmt | .lineFormat | .labelFormat => true
  | _ => false

/-- `GetBreakpoint` on a stream selector: index of the first breaking stage, −1 if none -/
def breakIndex : List StageTag → Nat → Int
  | [], _ => -1
  | t :: rest, i => if t.breaks then i else breakIndex rest (i + 1)

/-- `GetBreakpoint` on a script: `absent` = the range aggregation is `absent_over_time` -/
def getBreakpoint (tags : List StageTag) (absent : Bool) : Int :=
  let bp := breakIndex tags 0
  if absent && bp < 0 then -2 else bp

/-- `breakScript`: the stages given to ClickHouse and those left in the script for the in-process engine
    (`none`: everything stays in ClickHouse) -/
def breakScript (bp : Int) (tags : List StageTag) : List StageTag × Option (List StageTag) :=
  if bp = -2 then (tags, some [])
  else if bp < 0 then (tags, none)
  else (tags.take bp.toNat, some (tags.drop bp.toNat))

/-- what `GetBreakpoint` sees of a modelled stage -/
def StageK.tag {V} : StageK V → StageTag
  | .line _ _ => .line
  | .labelFilter _ => .labelFilter
  | .parser .json => .jsonNoParams
  | .parser (.jsonParams _) => .jsonParams
  | .parser .logfmt => .logfmt
  | .parser (.logfmtParams _) => .logfmt
  | .labelFormat _ => .labelFormat
  | .lineFormat _ => .lineFormat
  | .drop _ _ => .drop
  | .unwrap _ => .unwrap

/-- `logql_transpiler_v2.Plan` on a pipeline of modelled stages: `GetBreakpoint`, then `breakScript` — the stages
    handed to `clickhouse_planner.Plan` and, when the pipeline is split, the stages handed to `internal_planner.Plan`.
    The second component is also *what is left in the parsed script object afterwards*: `breakScript` does not copy,
    it assigns `_script.Pipelines = _script.Pipelines[breakpoint:]` in the script it was given. -/
def splitPipeline {V} (ss : List (StageK V)) : List (StageK V) × Option (List (StageK V)) :=
  let bp := getBreakpoint (ss.map StageK.tag) false
  if bp < 0 then (ss, none) else (ss.take bp.toNat, some (ss.drop bp.toNat))

end Qryn.Read
