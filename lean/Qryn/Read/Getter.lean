import Qryn.LogQL.SemStages
import Qryn.LogQL.SemX
/-! The hand-over from ClickHouse to the in-process engine: `shared.ClickhouseGetterPlanner.Scan`
    (reader/logql/logql_transpiler_v2/shared/planner_clickhouse_getter.go) and the correspondence between the two views
    of a pipeline stage — C07's `StageX` (what `clickhouse_planner` plans) and C09's `StageK` (what `internal_planner` runs).

    `Scan` reads the columns `fingerprint, labels, string, timestamp_ns` of every row; the `Map(String, String)` column
    arrives as a Go map (no order; for a key that occurs twice the later pair wins) and is copied into the entry. In the
    model a label map is the association list `Labels` kept sorted by `Labels.set`: `canonLabels`. Core-only. -/
namespace Qryn.Read
open Qryn Qryn.Sql Qryn.LogQL

variable {V : Type}

/-- a `Map(String, String)` value scanned into a Go map -/
def canonLabels (m : List (Bytes × Bytes)) : Labels := m.foldl (fun acc kv => acc.set kv.1 kv.2) []

def intOfVal : Val → Int
  | .int i => i
  | _ => 0

def bytesOfVal : Val → Bytes
  | .str s => s
  | _ => []

/-- `rows.Scan(&e.Fingerprint, &labels, &e.Message, &e.TimestampNS)` + the copy of the map -/
def scanRow (N : NumOps V) (r : Row) : Entry V :=
  ⟨intOfVal (r.get "timestamp_ns"), UInt64.ofNat (intOfVal (r.get "fingerprint")).toNat, canonLabels (asMap (r.get "labels")),
   bytesOfVal (r.get "string"), N.zero, none⟩

def scanRows (N : NumOps V) (t : Table) : List (Entry V) := t.map (scanRow N)

/-- an entry of C07's direct reading as the getter hands it over -/
def scanX (N : NumOps V) (e : EntryX) : Entry V :=
  ⟨e.ts, UInt64.ofNat e.fp.toNat, canonLabels e.labels, e.line, N.zero, none⟩

/-- the message sizes of `Scan`: 100 entries per message, the end-of-stream marker (`Err = io.EOF`) behind the last entry -/
def getterCut : List (Entry V) → Nat → List (Entry V) → Batches V
  | [], _, cur => [cur]
  | e :: rest, 0, cur => cur :: getterCut rest 99 [e]
  | e :: rest, n + 1, cur => getterCut rest n (cur ++ [e])

def eofMarker (N : NumOps V) : Entry V := ⟨0, 0, [], [], N.zero, some .eof⟩

def getterBatches (N : NumOps V) (es : List (Entry V)) : Batches V := getterCut (es ++ [eofMarker N]) 100 []

/-! ### one stage, two views -/
/-- a path parameter as `sqlJsonParser` gets it: names as string arguments, `[n]` as the integer `n + 1` -/
def toJArg : PathSeg → JArg
  | .key k => .key k
  | .idx i => .idx ((i : Int) + 1)

/-- the stages both planners have, as C07's `StageX`; `like` = the environment function `re2Like` of `LineFilterPlanner`
    (regexp/syntax says the pattern is one literal) -/
def toStageX (like : Bytes → Option LikeInfo) : StageK V → Option StageX
  | .line op val => some (.fl (.line ⟨op, val, match op with | .re | .nre => like val | _ => none⟩))
  | .labelFilter c => some (.fl (.label c))
  | .parser (.jsonParams ps) => some (.ch (.json (ps.map (fun a => (a.1, a.2.map toJArg)))))
  | .drop ns vs => some (.ch (.drop (ns.zip vs)))
  | _ => none

end Qryn.Read
