import Qryn.Read.Internal
/-! `internal_planner.planAggregators`, case `*logql_parser.AggOperator`, after the `fix:` of the ungrouped vector
    aggregation: the by/without planner in front of `AggOpPlanner` is `planByWithout(prefix, suffix)` (the last non-nil
    clause wins) when a clause is written, and `ByWithoutPlanner{By: true}` — `by ()`: every label cut, one series with
    the empty label set — when none is (as `clickhouse_planner.planAgg` does since its own fix). Core-only. -/
namespace Qryn.Read

/-- the grouping `planAggregators` plans in front of a vector aggregation, from the clause the harness read off the AST
    (`none` = no clause written) -/
def planVecGrouping (written : Option ByWithout) : Option ByWithout := some (written.getD ⟨true, []⟩)

/-- `planByWithout(prefix, suffix)`: the last non-nil argument -/
def chosenByWithout (pre suf : Option ByWithout) : Option ByWithout :=
  match suf with | some g => some g | none => pre

end Qryn.Read
