import Qryn.Read.Confine
import Qryn.Gen.Tables
/-! Classification of the reader's tables (names regenerated into `Gen.tableNames`). -/
namespace Qryn.Confine

/-- tables whose rows carry their own timestamp: scans need timestamp bounds -/
def dataTables : List String := ["samples_v3", "metrics_15s", "tempo_traces", "profiles"]
/-- per-day index tables: scans need a covering date range or a restriction to selected fingerprints.
    (`tempo_traces_attrs_gin` rows also carry `timestamp_ns`; the date range is what C13 asks of it.) -/
def indexTables : List String :=
  ["time_series", "time_series_gin", "tempo_traces_attrs_gin", "tempo_traces_kv", "profiles_series", "profiles_series_gin"]
/-- legacy tables not read by any modelled planner -/
def unusedTables : List String := ["samples_kv"]
/-- tables with a `type` column (logs / metrics / both) -/
def typedTables : List String := ["samples_v3", "metrics_15s", "time_series", "time_series_gin"]

/-- the registered names (base and `_dist` variants) this classification knows -/
def knownNames : List String :=
  (dataTables ++ indexTables ++ unusedTables).flatMap (fun n => [n, n ++ "_dist"])

/-- every table the reader registers is classified -/
def allClassified : Bool := Qryn.Gen.tableNames.all (fun t => knownNames.contains t)

/-- tables that may be read through ids selected by a confined scan: the span table, by trace id -/
def byIdTables : List String := ["tempo_traces"]

def lokiCfg : Cfg := ⟨tableKindOf dataTables indexTables, fun t => typedTables.contains (baseName t), fun t => byIdTables.contains (baseName t)⟩

end Qryn.Confine
