import Qryn.Base.Json
/-! # Guarded-separator ("separator first") list encoders, with and without a chunk buffer. Core-only.

Every hand-written list encoder of the reader has the same skeleton

```go
i := 0
for batch := range ch {            // (or one flat loop)
    for _, item := range batch {
        if i != 0 { write(",") }   // the GUARD reads the counter `i`
        write(render(item))
        i++
    }
}
```

possibly with a chunk buffer between `write` and the client (`strings.Builder`, a jsoniter `Stream` that is sent and
`Reset` every so often). This module is the state machine of that skeleton. It carries BOTH counters a chunked writer
has — the number of items written so far (`idx`, what the guard must read) and the number of items in the buffer
(`fill`, what the flush decision reads) — so that a model of a chunked writer has to say which of the two its guard
reads. `run` is the correct discipline (guard on `idx`); `sharedRun` is the discipline of
`ClickhouseGetterPlanner.Scan` transplanted to an encoder: ONE counter, reset at every flush, also read by the guard.

`Qryn/Proofs/SepEnc.lean` proves `run` = the reference rendering for every item list, every input batching and every
flush policy, and that `sharedRun size` is right exactly up to `size` items. -/
namespace Qryn.SepEnc
open Qryn

/-- state of a chunked guarded-separator writer -/
structure St where
  /-- items written so far (over all input batches and all flushed chunks) -/
  idx : Nat
  /-- items in the chunk buffer -/
  fill : Nat
  /-- the chunk buffer -/
  buf : Bytes
  deriving Repr

def St.init : St := ⟨0, 0, []⟩

/-- a flush policy decides, after an item has been appended, whether the buffer is sent: it may look at both
    counters (values AFTER the item). `fun _ _ => true` = no buffer (one chunk per item); `fun _ f => f ≥ n` =
    chunks of `n` items; any set of cut positions is a function of `idx`. -/
abbrev Policy := Nat → Nat → Bool

/-- chunks of exactly `n` items -/
def everyN (n : Nat) : Policy := fun _ f => decide (f ≥ n)

/-- one item: the separator iff this is not the first item OF THE WHOLE LIST, the item text, then the flush decision.
    Returns the new state and the chunks sent (none or one). -/
def step (pol : Policy) (st : St) (t : Bytes) : St × List Bytes :=
  let buf := st.buf ++ (if st.idx ≠ 0 then [44] else []) ++ t
  if pol (st.idx + 1) (st.fill + 1) then (⟨st.idx + 1, 0, []⟩, [buf]) else (⟨st.idx + 1, st.fill + 1, buf⟩, [])

/-- the items of one input batch; returns the state to continue with and the chunks sent -/
def runBatch (pol : Policy) : St → List Bytes → St × List Bytes
  | st, [] => (st, [])
  | st, t :: r =>
    let p := step pol st t
    let q := runBatch pol p.1 r
    (q.1, p.2 ++ q.2)

/-- the end of the loop: whatever is still buffered is sent (`if chunk.Len() > 0 { res <- chunk.String() }`) -/
def finish (st : St) : List Bytes := if st.buf = [] then [] else [st.buf]

/-- all input batches, one after the other, carrying the state across batch boundaries -/
def runBatches (pol : Policy) : St → List (List Bytes) → List Bytes
  | st, [] => finish st
  | st, b :: bs => let p := runBatch pol st b; p.2 ++ runBatches pol p.1 bs

/-- the chunks between the opening and the closing piece, for one flat item list -/
def run (pol : Policy) (st : St) (items : List Bytes) : List Bytes := runBatches pol st [items]

/-- a whole response: opening piece, the item chunks, closing piece -/
def encode (pre post : Bytes) (pol : Policy) (batches : List (List Bytes)) : List Bytes :=
  pre :: runBatches pol St.init batches ++ [post]

/-! ## the shared-counter variant (what must NOT be done) -/

/-- ONE counter `i`: read by the guard, incremented per item, compared with `size` for the flush and reset to 0
    when the buffer is sent (seeded change C15-4 in `GenericLabelReq`; the idiom is correct in
    `ClickhouseGetterPlanner.Scan`, where `i` is only a fill counter) -/
def sharedRun (size : Nat) : Nat → Bytes → List Bytes → List Bytes
  | _, buf, [] => if buf = [] then [] else [buf]
  | i, buf, t :: r =>
    let buf' := buf ++ (if i ≠ 0 then [44] else []) ++ t
    if i + 1 ≥ size then buf' :: sharedRun size 0 [] r else sharedRun size (i + 1) buf' r

def sharedEncode (pre post : Bytes) (size : Nat) (items : List Bytes) : List Bytes :=
  pre :: sharedRun size 0 [] items ++ [post]

end Qryn.SepEnc
