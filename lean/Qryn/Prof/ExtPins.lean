/-! # The bodies the models of the C16 extension were reviewed against

`Gen.ProfExtShape.bodyHashes` is regenerated from /repo on every run; `Qryn.C16.ext_shape_pinned` compares it with
this list. After a change of one of these functions: re-read the function, update the model (lean/Qryn/Prof/Diff.lean,
PprofMerge.lean) if needed, then copy the new hash here. -/
namespace Qryn.Prof
def reviewedBodies : List (String × String) := [
  ("synchronizeNames", "7060588051e8cb73"),
  ("mergeNodes", "11abde88256d1edd"),
  ("mergeChildren", "826f7a5eebe7f49d"),
  ("createEmptyNode", "fbf1df67c62ff802"),
  ("computeFlameGraphDiff", "b5dadf75304bf169"),
  ("assertPositive", "1e2d8fae7b906673"),
  ("Tree.AddName", "81d1f6f33fb8c560"),
  ("Tree.Total", "62ecb601190e66af"),
  ("NewProfileMergeV2", "427cf2fc15c5272b"),
  ("ProfileMergeV2.Merge", "2d2927a5fd3c707b"),
  ("ProfileMergeV2.init", "9660b5dda89ea279"),
  ("ProfileMergeV2.Profile", "63db12669d4c52be"),
  ("RewriteTableV2.Get", "167a51ecb289f51d"),
  ("sanitizeProfile", "0d1d8a1c058a2e7a"),
  ("removeInPlace", "4ed6075710002300"),
  ("combineHeaders", "8fa9ed5829adcf1d"),
  ("compatible", "a084db8225a13dd6"),
  ("equalValueType", "476d9817cb8f2c9b"),
  ("GetFunctionKey", "3afce9d1481b4ae2"),
  ("GetMappingKey", "797857caaf3c3d23"),
  ("GetLocationKey", "b34c0d92a2a711dd"),
  ("hashLines", "d13a70177b781a9c"),
  ("GetSampleKey", "7cbb437b0d9cdda7"),
  ("hashProfileLabels", "f621f3726f5f4db6"),
  ("hashLocations", "03e6ddfaeaa4ff82")
]
end Qryn.Prof
