import Qryn.Prom.Select
import Qryn.Gen.ProfSelect
/-! Pyroscope label selector: model of `StreamSelectorPlanner.Process/getMatchers/getMatcherClause`
    (reader/prof/transpiler/planner_selector.go).

    A selector on a pseudo-label (`__name__`, `__period_type__`, `__period_unit__`, `__sample_type__`,
    `__sample_unit__`, `__profile_type__`, `service_name`; table `Gen.ProfSelect.pseudoLabels`) becomes a
    *global* condition on columns every index row of the series carries (`type_id` parts, `service_name`,
    or `arrayExists` over `sample_types_units`); any other selector becomes a key/value condition in the
    bit-set scheme shared with the log and metric selectors. `plan` is the query as a structure, `PQuery.eval`
    its meaning over `profiles_series_gin` rows, `PQuery.render` its SQL text. `re pat s` = ClickHouse
    `match(s, pat)`. Core-only. -/
namespace Qryn.Prof
open Qryn Qryn.Prom Qryn.Prom.Bits

inductive Op
  | eq | ne | re | nre
deriving DecidableEq, Repr

/-- the operator token of `parser.Selector.Op` -/
def Op.str : Op → String
  | .eq => "=" | .ne => "!=" | .re => "=~" | .nre => "!~"

/-- `parser.Selector` with the value already unquoted -/
structure Selector where
  name : Bytes
  op : Op
  val : Bytes
deriving DecidableEq, Repr

/-- one row of `profiles_series_gin` -/
structure PRow where
  date : Bytes
  key : Bytes
  val : Bytes
  typeId : Bytes
  serviceName : Bytes
  stu : List (Bytes × Bytes)            -- sample_types_units
  fp : Nat
deriving Repr

/-- `splitByChar(sep, s)` -/
def splitByChar (sep : UInt8) : Bytes → List Bytes
  | [] => [[]]
  | c :: cs =>
    match splitByChar sep cs with
    | [] => [[]]                          -- unreachable: the result is never empty
    | p :: ps => if c = sep then [] :: p :: ps else (c :: p) :: ps

/-- `splitByChar(':', type_id)[k]`, 1-based; an index past the end gives the default `''` -/
def typePart (r : PRow) (k : Nat) : Bytes := (splitByChar 58 r.typeId).getD (k - 1) []

/-- meaning of the SQL field expressions `getMatchers` uses (`x` = the element of `sample_types_units` bound by
    `arrayExists`, unused outside it); an expression the model does not know has no meaning -/
def fieldSem (expr : String) : Option (PRow → Bytes × Bytes → Bytes) :=
  if expr = "splitByChar(':', type_id)[1]" then some (fun r _ => typePart r 1)
  else if expr = "splitByChar(':', type_id)[2]" then some (fun r _ => typePart r 2)
  else if expr = "splitByChar(':', type_id)[3]" then some (fun r _ => typePart r 3)
  else if expr = "x.1" then some (fun _ x => x.1)
  else if expr = "x.2" then some (fun _ x => x.2)
  else if expr = "format('{}:{}:{}:{}:{}', (splitByChar(':', type_id) as _parts)[1], x.1, x.2, _parts[2], _parts[3])" then
    some (fun r x => typePart r 1 ++ [58] ++ x.1 ++ [58] ++ x.2 ++ [58] ++ typePart r 2 ++ [58] ++ typePart r 3)
  else if expr = "service_name" then some (fun r _ => r.serviceName)
  else if expr = "val" then some (fun r _ => r.val)
  else if expr = "key" then some (fun r _ => r.key)
  else none

/-- conditions the planner builds -/
inductive PCond
  | cmp (fn : String) (field : String) (s : Bytes)            -- (field) fn ('s')
  | cmpMatch (fn : String) (field : String) (pat : Bytes)      -- (match(field, 'pat')) fn (1)
  | arrayExists (c : PCond)                                    -- (arrayExists(x -> c, sample_types_units)) == (1)
  | and2 (a b : PCond)                                         -- (a) and (b)
deriving Repr

def PCond.evalX (re : Bytes → Bytes → Bool) (r : PRow) : PCond → Bytes × Bytes → Bool
  | .cmp fn field s, x => match fieldSem field with
    | some g => cmpBytes fn (g r x) s
    | none => false
  | .cmpMatch fn field pat, x => match fieldSem field with
    | some g => cmpInt fn (if re pat (g r x) then 1 else 0) 1
    | none => false
  | .arrayExists c, _ => r.stu.any (fun y => c.evalX re r y)
  | .and2 a b, x => a.evalX re r x && b.evalX re r x

def PCond.eval (re : Bytes → Bytes → Bool) (r : PRow) (c : PCond) : Bool := c.evalX re r ([], [])

/-- `getMatcherClause(field, op, val)` (`none` = "unknown operator") -/
def matcherClause (field : String) (op : Op) (val : Bytes) : Option PCond :=
  match Gen.ProfSelect.opClauses.lookup op.str with
  | none => none
  | some (fn, isMatch) => some (if isMatch then .cmpMatch fn field val else .cmp fn field val)

def nameStr (n : Bytes) : String := String.ofList (n.map (fun c => Char.ofNat c.toNat))

/-- the pseudo-label entry for a selector name (names are ASCII identifiers) -/
def pseudoOf (name : Bytes) : Option (String × Bool) := Gen.ProfSelect.pseudoLabels.lookup (nameStr name)

/-- the value `getMatchers` hands on: for the operators of `Gen.ProfSelect.anchoredOps` (`=~`, `!~` after
    `fix: Pyroscope selector regular expressions …`) the pattern wrapped as `^(?:` … `)$` -/
def selVal (s : Selector) : Bytes :=
  if Gen.ProfSelect.anchoredOps.contains s.op.str then
    ascii Gen.ProfSelect.valuePrefix ++ s.val ++ ascii Gen.ProfSelect.valueSuffix
  else s.val

def opHoldsP (re : Bytes → Bytes → Bool) (op : Op) (have_ want : Bytes) : Bool :=
  match op with
  | .eq => have_ == want | .ne => have_ != want | .re => re want have_ | .nre => !(re want have_)

def Op.ofStr (s : String) : Option Op :=
  if s = "=" then some .eq else if s = "!=" then some .ne else if s = "=~" then some .re
  else if s = "!~" then some .nre else none

/-- `inverseOp` (table `Gen.ProfSelect.inverseOps`, the final `return` for every other operator) -/
def invOp (op : Op) : Option Op :=
  Op.ofStr ((Gen.ProfSelect.inverseOps.lookup op.str).getD Gen.ProfSelect.inverseDefault)

/-- `acceptsEmpty(op, _str)` on the value as `getMatchers` has it by then (regular expressions anchored): a label the
    series does not have satisfies the selector. `gre pat s` = Go's `regexp.MatchString(pat, s)` (a search; the planner
    asks it about the empty string only). `Gen.ProfSelect.absentLabel` says whether the source has that test
    (`"inverse"`) or asks a row of every key/value selector (`"row-required"`, the code as it was written). -/
def acceptsEmptyP (gre : Bytes → Bytes → Bool) (s : Selector) : Bool :=
  Gen.ProfSelect.absentLabel == "inverse" && opHoldsP gre s.op [] (selVal s)

/-- one selector: `inl` = global clause, `inr` = key/value clause with its `required` bit; a key/value selector that
    accepts the empty value is asked inverted and its bit is not required -/
def clauseOf (gre : Bytes → Bytes → Bool) (s : Selector) : Option (PCond ⊕ (PCond × Bool)) :=
  match pseudoOf s.name with
  | some (field, inArr) =>
    (matcherClause field s.op (selVal s)).map (fun c => .inl (if inArr then .arrayExists c else c))
  | none =>
    let opt := acceptsEmptyP gre s
    (if opt then invOp s.op else some s.op).bind (fun op =>
      (matcherClause "val" op (selVal s)).map (fun c => .inr (.and2 (.cmp (fnOf "Eq") "key" s.name) c, !opt)))

structure PQuery where
  table : String
  fromDate : Bytes
  toDate : Bytes
  globals : List PCond
  kvs : List PCond
  /-- bit i of `matchersResponse.kvRequired`: a row must satisfy `kvs[i]`; clear: no row may (an inverted selector) -/
  kvRequired : List Bool

/-- `getMatchers` + `Process` -/
def plan (gre : Bytes → Bytes → Bool) (table : String) (fromDate toDate : Bytes) : List Selector → Option PQuery
  | [] => some ⟨table, fromDate, toDate, [], [], []⟩
  | s :: ss =>
    match clauseOf gre s, plan gre table fromDate toDate ss with
    | some (.inl g), some q => some { q with globals := g :: q.globals }
    | some (.inr k), some q => some { q with kvs := k.1 :: q.kvs, kvRequired := k.2 :: q.kvRequired }
    | _, _ => none

def PQuery.rowOk (re : Bytes → Bytes → Bool) (q : PQuery) (r : PRow) : Bool :=
  cmpBytes (fnOf "Ge") r.date q.fromDate && cmpBytes (fnOf "Le") r.date q.toDate &&
    q.globals.all (·.eval re r)

/-- `if matchers.kvRequired != 0 { res = res.AndWhere(sql.Or(matchers.kvMatchers...)) }` -/
def PQuery.useOr (q : PQuery) : Bool := requiredConst q.kvRequired != 0

/-- meaning over the index rows; without key/value selectors there is neither the OR nor the HAVING; the OR is there
    iff some bit is required; HAVING compares the aggregate with the Go `int64` (a negative one equals no aggregate) -/
def PQuery.eval (re : Bytes → Bytes → Bool) (W : Nat) (q : PQuery) (tbl : List PRow) : List Nat :=
  if q.kvs.isEmpty then ((tbl.filter (q.rowOk re)).map (·.fp)).eraseDups
  else bitsetSelectGen W (q.rowOk re) (q.kvs.map (fun c r => c.eval re r)) q.useOr
    (fun x => ((x : Nat) : Int) == requiredConst q.kvRequired) (·.fp) tbl

/-! ### SQL text -/

def PCond.render : PCond → Bytes
  | .cmp fn field s => logical fn [ascii field, Sql.quote s]
  | .cmpMatch fn field pat =>
    logical fn [ascii "match(" ++ ascii field ++ ascii ", " ++ Sql.quote pat ++ ascii ")", ascii "1"]
  | .arrayExists c =>
    logical (fnOf "Eq") [ascii "arrayExists(x -> " ++ c.render ++ ascii ", sample_types_units)", ascii "1"]
  | .and2 a b => logical "and" [a.render, b.render]

def renderBitSetP (cs : List PCond) : Bytes :=
  let cast := Gen.PromSelect.shiftCast
  let term (p : Nat × PCond) : Bytes :=
    ascii "bitShiftLeft(" ++ (if cast = "" then p.2.render else ascii (cast ++ "(") ++ p.2.render ++ ascii ")")
      ++ ascii ", " ++ ascii (toString p.1) ++ ascii ")"
  ascii "groupBitOr(" ++ joinWith (ascii " + ") ((indexed cs).map term) ++ ascii ")"

def PQuery.render (q : PQuery) : Bytes :=
  ascii "SELECT fingerprint FROM " ++ ascii q.table ++ ascii " WHERE " ++
    logical "and" ([logical (fnOf "Ge") [ascii "date", Sql.quote q.fromDate],
                    logical (fnOf "Le") [ascii "date", Sql.quote q.toDate]] ++
      (if q.globals.isEmpty then [] else [logical "and" (q.globals.map PCond.render)]) ++
      (if q.kvs.isEmpty || !q.useOr then [] else [logical "or" (q.kvs.map PCond.render)])) ++
    ascii " GROUP BY fingerprint" ++
    (if q.kvs.isEmpty then [] else
      ascii " HAVING " ++ logical "and" [logical (fnOf "Eq")
        [renderBitSetP q.kvs, ascii (toString (requiredConst q.kvRequired))]])

/-! ### the direct reading -/

/-- what one selector asks of one index row -/
def selHolds (re : Bytes → Bytes → Bool) (s : Selector) (r : PRow) : Bool :=
  match pseudoOf s.name with
  | some (field, inArr) =>
    (match fieldSem field with
     | some g => if inArr then r.stu.any (fun x => opHoldsP re s.op (g r x) (selVal s))
                 else opHoldsP re s.op (g r ([], [])) (selVal s)
     | none => false)
  | none => r.key == s.name && opHoldsP re s.op r.val (selVal s)

def isGlobal (s : Selector) : Bool := (pseudoOf s.name).isSome

def dateOk (fromDate toDate : Bytes) (r : PRow) : Bool := bytesLe fromDate r.date && bytesLe r.date toDate

end Qryn.Prof
