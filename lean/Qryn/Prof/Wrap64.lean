import Qryn.Prof.Tree
/-! # The 64-bit reading of the weight sums

The Go code keeps every weight in an `int64` and only ever ADDS weights (`total +=`, `self +=`, `Self[i] +=`,
`Total[i] +=`, `Value[i] +=`); no branch of the tree builder or of `MergeTrie` looks at a weight (the one
comparison, `maxSelf`, feeds nothing back). This file defines the same computations over `BitVec 64` — `+` is the
wrap-around addition of `int64` — so that the laws can be stated about what the code really computes:
`wrap = BitVec.ofInt 64` is a homomorphism from the `Int` model onto it (`Qryn/Proofs/ProfWrap64.lean`). -/
namespace Qryn.Prof

abbrev I64 := BitVec 64

/-- an `Int` weight as the `int64` bit pattern -/
def wrap (x : Int) : I64 := BitVec.ofInt 64 x

structure Visit64 where
  parent : Nat
  fn : Nat
  node : Nat
  depth : Nat
  leaf : Bool
  vals : List I64
deriving DecidableEq

structure Node64 where
  parent : Nat
  fn : Nat
  node : Nat
  vals : List (I64 × I64)
deriving DecidableEq

structure Row64 where
  parent : Nat
  fn : Nat
  node : Nat
  self : I64
  total : I64
deriving DecidableEq

def Visit.wrap (v : Visit) : Visit64 := ⟨v.parent, v.fn, v.node, v.depth, v.leaf, v.vals.map Qryn.Prof.wrap⟩
def Node.wrap (n : Node) : Node64 := ⟨n.parent, n.fn, n.node, n.vals.map (fun st => (Qryn.Prof.wrap st.1, Qryn.Prof.wrap st.2))⟩
def Row.wrap (r : Row) : Row64 := ⟨r.parent, r.fn, r.node, Qryn.Prof.wrap r.self, Qryn.Prof.wrap r.total⟩

/-- `postProcessProf`'s `total += Value[j]; if i == 0 { self += Value[j] }` in `int64` -/
def addVisit64 (ntypes : Nat) (v : Visit64) (vals : List (I64 × I64)) : List (I64 × I64) :=
  (List.range ntypes).map (fun j =>
    ((vals.getD j (0, 0)).1 + (if v.leaf then v.vals.getD j 0 else 0), (vals.getD j (0, 0)).2 + v.vals.getD j 0))

def newNode64 (ntypes : Nat) (v : Visit64) : Node64 := ⟨v.parent, v.fn, v.node, addVisit64 ntypes v []⟩
def bumpNode64 (ntypes : Nat) (n : Node64) (v : Visit64) : Node64 := { n with vals := addVisit64 ntypes v n.vals }

/-- the `tree` map of `postProcessProf` over `int64` weights -/
def treeMap64 (ntypes : Nat) (vs : List Visit64) : List Node64 :=
  foldUpsert (fun n : Node64 => n.node) (fun v : Visit64 => v.node) (newNode64 ntypes) (bumpNode64 ntypes) [] vs

def typeRow64 (j : Nat) (n : Node64) : Row64 :=
  ⟨n.parent, n.fn, n.node, (n.vals.getD j (0, 0)).1, (n.vals.getD j (0, 0)).2⟩

def addRow64 (a r : Row64) : Row64 := { a with self := a.self + r.self, total := a.total + r.total }

/-- `Tree.MergeTrie` over `int64` weights -/
def mergeTrie64 (T : List Row64) (rows : List Row64) : List Row64 :=
  foldUpsert (fun a : Row64 => (a.parent, a.node)) (fun r : Row64 => (r.parent, r.node)) id addRow64 T rows

/-- the ClickHouse `GROUP BY … sum(…)` over `Int64` columns (which wrap the same way) -/
def sqlGroup64 (R : List Row64) : List Row64 :=
  foldUpsert (fun a : Row64 => (a.parent, a.fn, a.node)) (fun r : Row64 => (r.parent, r.fn, r.node)) id addRow64 [] R

def children64 (T : List Row64) (p : Nat) : List Row64 := T.filter (fun a => a.parent = p)
def sum64 (l : List I64) : I64 := l.foldr (· + ·) 0
def sumTotals64 (rs : List Row64) : I64 := sum64 (rs.map (·.total))
/-- `Tree.Total()[i]` in `int64` -/
def rootTotal64 (T : List Row64) : I64 := sumTotals64 (children64 T 0)
/-- `calculateSumAndCount` in `int64` -/
def valueSum64 (samples : List (List I64)) (j : Nat) : I64 := sum64 (samples.map (fun vals => vals.getD j 0))

end Qryn.Prof
