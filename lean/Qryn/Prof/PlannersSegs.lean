import Qryn.Prof.Planners
import Qryn.Prom.SelectSegs
import Qryn.Sql.SegsOf
/-! C10: the Pyroscope statements of `Prof/Planners.lean` as segment lists in which every request byte string is a string
    leaf. The `Sel` models of that file keep the texts assembled by closures (`arrayExists(x -> …)`, `arrayFilter(x -> x.1 IN
    (…), tags)`, the `arrayMap` of MergeRaw with the quoted type id, the value aggregate of SelectSeries) inside `.raw` atoms
    as `String`s (through `utf8`), so `segsSel` of the model has request bytes in raw text. Here the same statements are
    written clause by clause (`selBodyB` mirrors `segsSelBody`, `StB.segs` mirrors `segsSel`, `unionB` mirrors
    `UnionStmt.render`) with

    * selector conditions as `PCond.segs` (names, values, patterns are leaves, also inside `arrayExists`),
    * `group_by` / `label_names` entries as the leaves of `segsExpr (.isIn (.raw "x.1") (names.map .str))`,
    * the type id (`typeUnit`) as a `.str` leaf,
    * the parts that are ordinary `sql_select` nodes through `segsExpr` / `segsSelBody` / `segsJoins`.

    `Proofs/ProfPlansClosed.lean`: closedness for all arguments, and `renderSegs (…Segs …) = renderSel (Prof.… …)` when the
    request strings survive `utf8`. -/
namespace Qryn.Prof
open Qryn Qryn.Sql Qryn.Prom

/-! ### the `sql_select` combinators over segment lists -/
/-- `(x)` -/
def parB (x : List Seg) : List Seg := [.raw (b "(")] ++ x ++ [.raw (b ")")]
/-- `Expr.logical` -/
def logicalB (fn : String) (xs : List (List Seg)) : List Seg := joinS (b " " ++ b fn ++ b " ") (xs.map parB)
/-- the operands of `Expr.bitSetAnd` -/
def shiftB (i : Nat) : List (List Seg) → List (List Seg)
  | [] => []
  | x :: xs => ([.raw (b "bitShiftLeft(toUInt64(")] ++ x ++ [.raw (b "), " ++ natDigits i ++ b ")")]) :: shiftB (i + 1) xs
/-- `Expr.bitSetAnd` -/
def bitSetAndB (xs : List (List Seg)) : List Seg := [.raw (b "groupBitOr(")] ++ joinS (b " + ") (shiftB 0 xs) ++ [.raw (b ")")]
/-- `Expr.col` with a non-empty alias -/
def colB (x : List Seg) (a : String) : List Seg := x ++ [.raw (b " as " ++ b a)]

/-- `segsSelBody` over segment lists (`from_` = the FROM object and its joins; no PREWHERE in these planners) -/
def selBodyB (distinct : Bool) (cols : List (List Seg)) (from_ wher : Option (List Seg)) (gb : List (List Seg))
    (having : Option (List Seg)) (ob : List (List Seg)) (limit : Option (List Seg)) : List Seg :=
  [.raw (b " SELECT " ++ (if distinct then b " DISTINCT " else []))] ++ joinS (b ", ") cols ++
  (match from_ with | some f => [.raw (b " FROM ")] ++ f | none => []) ++
  (match wher with | some p => [.raw (b " WHERE ")] ++ p | none => []) ++
  (if gb.isEmpty then [] else [.raw (b " GROUP BY ")] ++ joinS (b ", ") gb) ++
  (match having with | some p => [.raw (b " HAVING ")] ++ p | none => []) ++
  (if ob.isEmpty then [] else [.raw (b " ORDER BY ")] ++ joinS (b ", ") ob) ++
  (match limit with | some l => [.raw (b " LIMIT ")] ++ l | none => [])

/-- one WITH entry: `alias as (<body>)` -/
def withB (w : String × List Seg) : List Seg := [.raw (b w.1 ++ b " as (")] ++ w.2 ++ [.raw (b ")")]

/-- a statement: its WITH entries (alias, body) in order, and its own body (`segsSel`) -/
structure StB where
  withs : List (String × List Seg) := []
  body : List Seg

def StB.segs (s : StB) : List Seg :=
  (if s.withs.isEmpty then [] else [.raw (b "WITH ")] ++ joinS (b ",") (s.withs.map withB)) ++ s.body

/-- `outer.With(alias, inner)`: the entries of `inner` are hoisted in front, then `inner` itself (the aliases of these
    planners are pairwise different, so `addWith1` drops nothing) -/
def StB.under (inner : StB) (alias : String) (body : List Seg) : StB :=
  { withs := inner.withs ++ [(alias, inner.body)], body := body }

/-- `UnionStmt.render` -/
def unionB (pre : List (List Seg)) (alias : String) (ops : List (List Seg)) (post : List (List Seg)) (main : List Seg) :
    List Seg :=
  [.raw (b "WITH ")] ++ joinS (b ",") (pre ++
    [[.raw (b alias ++ b " as ((")] ++ joinS (b ") UNION ALL (") ops ++ [.raw (b "))")]] ++ post) ++ main

/-! ### the closure texts with their request strings as leaves -/
def condsB (gs : List PCond) : List (List Seg) := gs.map PCond.segs

/-- `arrayFilterIn`: every name is a leaf -/
def arrayFilterInB (names : List Bytes) (arr : String) : List Seg :=
  [.raw (b "arrayFilter(x -> ")] ++ segsExpr (.isIn (.raw "x.1") (names.map .str)) ++ [.raw (b ", " ++ b arr ++ b ")")]

/-- the `tree` column of `mergeRaw`: the type id is a leaf -/
def rawTreeColB (typeUnit : Bytes) : List Seg :=
  colB [.raw (b "arrayMap(x -> (x.1, x.2, x.3, (arrayFirst(y -> y.1 == "), .str typeUnit,
        .raw (b ", x.4) as af).2, af.3), tree)")] "tree"

/-- `seriesValueCol`: the type id is a leaf (twice with `avg`) -/
def seriesValueColB (typeUnit : Bytes) (avg : Bool) : List Seg :=
  let cond := segsExpr (eq (.raw "x.1") (.str typeUnit))
  colB ([.raw (b "sum(toFloat64(arrayFirst(x -> ")] ++ cond ++ [.raw (b ", p.values_agg).2))")] ++
    (if avg then [.raw (b " / sum(toFloat64(arrayFirst(x -> x.1 == ")] ++ cond ++ [.raw (b ").3))")] else [])) "value"

/-! ### the statements -/
def dateB (c : PCtx) : List (List Seg) := (dateConds c).map segsExpr

def selectorBody (c : PCtx) (q : PQuery) : List Seg :=
  selBodyB false [segsExpr (.raw "fingerprint")] (some (segsExpr (.raw c.ginTable)))
    (some (logicalB "and" (dateB c ++
      (if q.globals.isEmpty then [] else [logicalB "and" (condsB q.globals)]) ++
      (if q.kvs.isEmpty || !q.useOr then [] else [logicalB "or" (condsB q.kvs)]))))
    [segsExpr (.raw "fingerprint")]
    (if q.kvs.isEmpty then none
     else some (logicalB "and" [logicalB "==" [bitSetAndB (condsB q.kvs), segsExpr (.int (Bits.requiredConst q.kvRequired))]]))
    [] none

/-- `selectorSel` -/
def selectorB (c : PCtx) (q : PQuery) : StB := { body := selectorBody c q }

def limitObB (c : PCtx) : List (List Seg) := if c.limit != 0 then [segsExpr (.orderBy (.raw "timestamp_ns") .desc)] else []
def limitB (c : PCtx) : Option (List Seg) := if c.limit != 0 then some (segsExpr (.int c.limit)) else none

/-- `mergeProfiles` -/
def mergeProfilesB (c : PCtx) (fp : PQuery) (globals : List PCond) : StB :=
  (selectorB c fp).under "fp"
    (selBodyB false [segsExpr (.raw "payload")] (some (segsExpr (.raw c.profilesDistTable)))
      (some (logicalB "and" ([ge (.raw "timestamp_ns") (.int c.fromNs), le (.raw "timestamp_ns") (.int c.toNs),
          Expr.isIn (.raw "fingerprint") [.withRef (.named "fp")]].map segsExpr ++ condsB globals)))
      [] none (limitObB c) (limitB c))

/-- `mergeRaw` -/
def mergeRawB (c : PCtx) (typeUnit : Bytes) (fp : PQuery) (globals : List PCond) : StB :=
  (selectorB c fp).under "fp"
    (selBodyB false [rawTreeColB typeUnit, segsExpr (.raw "functions")] (some (segsExpr (.raw c.profilesDistTable)))
      (some (logicalB "and" ([ge (.raw "timestamp_ns") (.int c.fromNs), lt (.raw "timestamp_ns") (.int c.toNs),
          Expr.isIn (.raw "fingerprint") [.withRef (.named "fp")]].map segsExpr ++ [logicalB "and" (condsB globals)])))
      [] none (limitObB c) (limitB c))

/-- `mergeJoined` (its two selects hold no request text: `segsSelBody` of the model's own terms) -/
def mergeJoinedB (raw : StB) : StB :=
  (raw.under "raw" (segsSelBody (Sel.mk [] false [.raw "rtree"]
      (some (.arrayJoin (.withRef (.named "raw")) (simpleCol "raw.tree" "rtree"))) [] none none [] none [] none))).under
    "pre_joined" (segsSelBody (mergeJoined emptySel))

/-- `mergeAggregated` -/
def mergeAggregatedB (joined : StB) : StB := joined.under "joined" (segsSelBody (mergeAggregated emptySel))

/-- `mergeTraces` -/
def mergeTracesB (c : PCtx) (typeUnit : Bytes) (fp : PQuery) (globals : List PCond) : StB :=
  mergeAggregatedB (mergeJoinedB (mergeRawB c typeUnit fp globals))

/-- `getLabels` -/
def getLabelsB (c : PCtx) (groupBy : List Bytes) (fp : PQuery) (globals : List PCond) : StB :=
  (selectorB c fp).under "fp"
    (selBodyB true
      [segsExpr (.raw "fingerprint"),
       (if groupBy.isEmpty then segsExpr (simpleCol "arraySort(p.tags)" "tags") else colB (arrayFilterInB groupBy "p.tags") "tags"),
       (if groupBy.isEmpty then segsExpr (simpleCol "fingerprint" "new_fingerprint")
        else segsExpr (simpleCol "cityHash64(tags)" "new_fingerprint"))]
      (some (segsExpr (.col (.raw c.seriesTable) "p")))
      (some (logicalB "and" ([Expr.isIn (.raw "fingerprint") [.withRef (.named "fp")]].map segsExpr ++ dateB c ++ condsB globals)))
      [] none [] none)

/-- the first column of `selectSeries` -/
def stepCol (step : Int) : Expr :=
  simpleCol ("intDiv(p.timestamp_ns, 1000000000 * " ++ toString step ++ ") * " ++ toString step ++ " * 1000") "timestamp_ms"

def seriesJoin : List (String × Alias × Expr) :=
  [("any left", .named "labels", eq (.raw "p.fingerprint") (.raw "labels.fingerprint"))]

/-- `selectSeries` over `labels` -/
def selectSeriesB (c : PCtx) (typeUnit : Bytes) (avg : Bool) (step : Int) (labels : StB) (globals : List PCond) : StB :=
  labels.under "labels"
    (selBodyB false
      [segsExpr (stepCol step), segsExpr (simpleCol "labels.new_fingerprint" "fingerprint"),
       segsExpr (simpleCol "min(labels.tags)" "labels"), seriesValueColB typeUnit avg]
      (some (segsExpr (.col (.raw c.profilesDistTable) "p") ++ segsJoins seriesJoin))
      (some (logicalB "and" ([Expr.isIn (.raw "p.fingerprint") [.withRef (.named "fp")],
          ge (.raw "p.timestamp_ns") (.int c.fromNs), le (.raw "p.timestamp_ns") (.int c.toNs)].map segsExpr ++ condsB globals)))
      [segsExpr (.raw "timestamp_ms"), segsExpr (.raw "fingerprint")] none
      [segsExpr (.orderBy (.raw "fingerprint") .asc), segsExpr (.orderBy (.raw "timestamp_ms") .asc)] none)

/-- `PlanSelectSeries`: `selectSeries` over `getLabels` -/
def planSelectSeriesB (c : PCtx) (typeUnit : Bytes) (avg : Bool) (step : Int) (groupBy : List Bytes) (fp : PQuery)
    (globals : List PCond) : StB :=
  selectSeriesB c typeUnit avg step (getLabelsB c groupBy fp globals) globals

/-- `allTimeSeries` (the date bounds are leaves of the model itself) -/
def allTimeSeriesB (c : PCtx) : StB := { body := segsSelBody (allTimeSeries c) }

def timeSeriesBody (c : PCtx) (globals : List PCond) : List Seg :=
  selBodyB true (seriesCols.map segsExpr) (some (segsExpr (seriesFrom c)))
    (some (logicalB "and" ([Expr.isIn (.raw "p.fingerprint") [.withRef (.named "fp")]].map segsExpr ++ dateB c ++ condsB globals)))
    [] none [] none

/-- `timeSeriesSelect` -/
def timeSeriesSelectB (c : PCtx) (fp : PQuery) (globals : List PCond) : StB :=
  (selectorB c fp).under "fp" (timeSeriesBody c globals)

/-- the select `FilterLabelsPlanner` puts over its main statement -/
def filterBody (labels : List Bytes) : List Seg :=
  selBodyB false [colB (arrayFilterInB labels "tags") "tags", segsExpr (simpleCol "type_id" "type_id"),
      segsExpr (simpleCol "__sample_types_units" "__sample_types_units")]
    (some (segsExpr (.withRef (.named "pre_label_filter")))) none [] none [] none

/-- `filterLabels` -/
def filterLabelsB (labels : List Bytes) (main : StB) : StB :=
  if labels.isEmpty then main else main.under "pre_label_filter" (filterBody labels)

/-- `planSeries` -/
def planSeriesB (c : PCtx) (labels : List Bytes) (sel : Option PQuery) : StB :=
  match sel with
  | none => allTimeSeriesB c
  | some q => filterLabelsB labels (timeSeriesSelectB c q q.globals)

/-- `labelsNoSel` / `labelsSel`: the label of LabelValues is a `.str` leaf of the model itself -/
def labelsNoSelB (c : PCtx) (col : String) (label : Option Bytes) : StB := { body := segsSelBody (labelsNoSel c col label) }
def labelsSelB (c : PCtx) (col : String) (label : Option Bytes) (withFp : Bool) : StB :=
  { body := segsSelBody (labelsSel c col label withFp) }

/-- `profileSize` over `main` -/
def profileSizeB (main : StB) : StB := main.under "pre_profile_size" (segsSelBody (profileSize emptySel))

/-- `analyzeQuery` -/
def analyzeQueryB (c : PCtx) (q : PQuery) : StB := profileSizeB (mergeProfilesB c q q.globals)

/-- `labelsUnion` -/
def labelsUnionSegs (c : PCtx) (col : String) (label : Option Bytes) (scripts : List PQuery) : List Seg :=
  unionB [] "fp" (scripts.map (selectorBody c)) [] (segsSelBody (labelsSel c col label true))

/-- `seriesUnion` -/
def seriesUnionSegs (c : PCtx) (labels : List Bytes) (scripts : List PQuery) : List Seg :=
  let fp : List (List Seg) := match scripts with
    | [] => []
    | p :: _ => [withB ("fp", selectorBody c p)]
  let ops := scripts.map (fun p => timeSeriesBody c p.globals)
  if labels.isEmpty then unionB fp "pre_distinct" ops [] (segsSelBody preDistinctSel)
  else unionB fp "pre_distinct" ops [withB ("pre_label_filter", segsSelBody preDistinctSel)] (filterBody labels)

/-! the segment lists under the names of the model's statements -/
def selectorSegs (c : PCtx) (q : PQuery) : List Seg := (selectorB c q).segs
def mergeProfilesSegs (c : PCtx) (fp : PQuery) (globals : List PCond) : List Seg := (mergeProfilesB c fp globals).segs
def mergeRawSegs (c : PCtx) (typeUnit : Bytes) (fp : PQuery) (globals : List PCond) : List Seg :=
  (mergeRawB c typeUnit fp globals).segs
def mergeJoinedSegs (c : PCtx) (typeUnit : Bytes) (fp : PQuery) (globals : List PCond) : List Seg :=
  (mergeJoinedB (mergeRawB c typeUnit fp globals)).segs
def mergeTracesSegs (c : PCtx) (typeUnit : Bytes) (fp : PQuery) (globals : List PCond) : List Seg :=
  (mergeTracesB c typeUnit fp globals).segs
def getLabelsSegs (c : PCtx) (groupBy : List Bytes) (fp : PQuery) (globals : List PCond) : List Seg :=
  (getLabelsB c groupBy fp globals).segs
def selectSeriesSegs (c : PCtx) (typeUnit : Bytes) (avg : Bool) (step : Int) (groupBy : List Bytes) (fp : PQuery)
    (globals : List PCond) : List Seg := (planSelectSeriesB c typeUnit avg step groupBy fp globals).segs
def allTimeSeriesSegs (c : PCtx) : List Seg := (allTimeSeriesB c).segs
def timeSeriesSelectSegs (c : PCtx) (fp : PQuery) (globals : List PCond) : List Seg := (timeSeriesSelectB c fp globals).segs
def filterLabelsSegs (c : PCtx) (labels : List Bytes) (fp : PQuery) (globals : List PCond) : List Seg :=
  (filterLabelsB labels (timeSeriesSelectB c fp globals)).segs
def planSeriesSegs (c : PCtx) (labels : List Bytes) (sel : Option PQuery) : List Seg := (planSeriesB c labels sel).segs
def labelsNoSelSegs (c : PCtx) (col : String) (label : Option Bytes) : List Seg := (labelsNoSelB c col label).segs
def labelsSelSegs (c : PCtx) (col : String) (label : Option Bytes) (withFp : Bool) : List Seg :=
  (labelsSelB c col label withFp).segs
def profileSizeSegs (c : PCtx) (q : PQuery) (globals : List PCond) : List Seg :=
  (profileSizeB (mergeProfilesB c q globals)).segs
def analyzeQuerySegs (c : PCtx) (q : PQuery) : List Seg := (analyzeQueryB c q).segs

end Qryn.Prof
