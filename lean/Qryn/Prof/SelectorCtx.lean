import Qryn.Prof.Selector
import Qryn.Base.Time
/-! `StreamSelectorPlanner.Process` with the dates it renders from the planner context:
    `FormatFromDate(ctx.From)` and `ctx.To.UTC().Format("2006-01-02")`. -/
namespace Qryn.Prof
/-- the Pyroscope selector query for a window (tied to the real planner's text by the `model-prof` stream of C13) -/
def profSelector (gre : Bytes → Bytes → Bool) (table : String) (fromNs toNs : Int) (sels : List Selector) : Option PQuery :=
  plan gre table (Time.formatFromDate fromNs) (Time.formatDate (Int.fdiv toNs 1000000000)) sels
end Qryn.Prof
