import Qryn.Prof.SelectorCtx
import Qryn.Sql.Build
/-! The Pyroscope read statements as `Sql.Sel` terms: model of reader/prof/transpiler —

    * `StreamSelectorPlanner.Process` (planner_selector.go) as a `Sel` (`selectorSel`; `Prof.PQuery` is the same request
      as a structure with its meaning, C17),
    * `MergeProfilesPlanner` (planner_merge_profiles.go; SelectMergeProfile, AnalyzeQuery),
    * `MergeRawPlanner` → `MergeJoinedPlanner` → `MergeAggregatedPlanner` (SelectMergeStacktraces / PlanMergeTraces),
    * `GetLabelsPlanner` + `SelectSeriesPlanner` (SelectSeries),
    * `AllTimeSeriesSelectPlanner`, `TimeSeriesSelectPlanner`, `FilterLabelsPlanner` (Series, one selector set),
    * `GenericLabelsPlanner` without a selector (LabelNames, LabelValues),
    * `ProfileSizePlanner` is not modelled (its two inline sub-selects have no place in `Sel`; listed in notes/C13.md).

    Custom columns whose text is assembled by a closure (`arrayExists(x -> …)`, `arrayFilter(x -> …, tags)`, the
    `arrayMap` of MergeRaw, the value aggregate of SelectSeries) are leaves of the statement: `.raw` / `.call` objects
    holding the text the closure writes (string values as UTF-8 text). Nothing about confinement is read from them.
    Tied byte for byte to `prof.PlanMergeProfiles / PlanMergeTraces / PlanSelectSeries / PlanSeries / PlanLabelNames /
    PlanLabelValues` by the `model-prof-plans` stream of C13. -/
namespace Qryn.Prof
open Qryn Qryn.Sql Qryn.Prom

def utf8 (b : Bytes) : String := (String.fromUTF8? (ByteArray.mk b.toArray)).getD ""

/-- a condition of the selector as a `sql_select` object -/
def condExpr : PCond → Expr
  | .cmp fn field s => .logical fn [.raw field, .str s]
  | .cmpMatch fn field pat => .logical fn [.call "match" [.raw field, .str pat], .raw "1"]
  | .arrayExists c => .logical (fnOf "Eq") [.call "arrayExists" [.raw ("x -> " ++ utf8 c.render), .raw "sample_types_units"], .int 1]
  | .and2 a b => .logical "and" [condExpr a, condExpr b]

/-- the planner context of `prof.plannerCtx` (`PopulateTableNames`) -/
structure PCtx where
  fromNs : Int
  toNs : Int
  limit : Int
  ginTable : String          -- ctx.ProfilesSeriesGinTable
  ginDistTable : String      -- ctx.ProfilesSeriesGinDistTable
  seriesTable : String       -- ctx.ProfilesSeriesTable
  seriesDistTable : String   -- ctx.ProfilesSeriesDistTable
  profilesDistTable : String -- ctx.ProfilesDistTable

/-- `FormatFromDate(ctx.From)` / `ctx.To.UTC().Format("2006-01-02")` -/
def PCtx.fromDate (c : PCtx) : Bytes := Time.formatFromDate c.fromNs
def PCtx.toDate (c : PCtx) : Bytes := Time.formatDate (Int.fdiv c.toNs 1000000000)

/-- the two date bounds every index scan of these planners starts with -/
def dateConds (c : PCtx) : List Expr := [ge (.raw "date") (.str c.fromDate), le (.raw "date") (.str c.toDate)]

/-- `StreamSelectorPlanner.Process` for the request `q` = what `getMatchers` makes of the selector list (`Prof.plan`, C17:
    `globals`, `kvs`, and the `kvRequired` mask — a key/value selector that accepts the empty value is in `kvs` INVERTED with
    its bit clear). Table and dates are the planner context's (`plan`'s own `table/fromDate/toDate` fields are not read).
    The `or(kvMatchers…)` row filter only `if matchers.kvRequired != 0` (`q.useOr`); `HAVING groupBitOr(…) == kvRequired`. -/
def selectorSel (c : PCtx) (q : PQuery) : Sel :=
  .mk [] false [.raw "fingerprint"] (some (.raw c.ginTable)) [] none
    (some (and_ (dateConds c ++
      (if q.globals.isEmpty then [] else [and_ (q.globals.map condExpr)]) ++
      (if q.kvs.isEmpty || !q.useOr then [] else [or_ (q.kvs.map condExpr)]))))
    [.raw "fingerprint"]
    (if q.kvs.isEmpty then none
     else some (and_ [eq (.bitSetAnd (q.kvs.map condExpr)) (.int (Bits.requiredConst q.kvRequired))]))
    [] none

/-- `ORDER BY timestamp_ns desc LIMIT n` when the context has a limit -/
def limited (c : PCtx) (s : Sel) : Sel :=
  if c.limit != 0 then (s.setOrderBy [.orderBy (.raw "timestamp_ns") .desc]).setLimit (some (.int c.limit)) else s

/-- `MergeProfilesPlanner.Process`: `fp` the request of the selector list the fingerprint planner was given, `globals` the
    global matchers of the planner's own selector list -/
def mergeProfiles (c : PCtx) (fp : PQuery) (globals : List PCond) : Sel :=
  (limited c (Sel.mk [] false [.raw "payload"] (some (.raw c.profilesDistTable)) [] none
    (some (and_ ([ge (.raw "timestamp_ns") (.int c.fromNs), le (.raw "timestamp_ns") (.int c.toNs),
                  .isIn (.raw "fingerprint") [.withRef (.named "fp")]] ++ globals.map condExpr)))
    [] none [] none)).with_ [(.named "fp", selectorSel c fp)]

/-- `MergeRawPlanner.Process` (`typeUnit` = sampleType ++ ":" ++ sampleUnit; the global matchers as ONE nested `and`) -/
def mergeRaw (c : PCtx) (typeUnit : Bytes) (fp : PQuery) (globals : List PCond) : Sel :=
  (limited c (Sel.mk [] false
    [.col (.raw ("arrayMap(x -> (x.1, x.2, x.3, (arrayFirst(y -> y.1 == " ++ utf8 (quote typeUnit) ++ ", x.4) as af).2, af.3), tree)")) "tree",
     .raw "functions"]
    (some (.raw c.profilesDistTable)) [] none
    (some (and_ [ge (.raw "timestamp_ns") (.int c.fromNs), lt (.raw "timestamp_ns") (.int c.toNs),
                 .isIn (.raw "fingerprint") [.withRef (.named "fp")], and_ (globals.map condExpr)]))
    [] none [] none)).with_ [(.named "fp", selectorSel c fp)]

/-- `MergeJoinedPlanner.Process` over `raw` -/
def mergeJoined (raw : Sel) : Sel :=
  let preJoined := (Sel.mk [] false [.raw "rtree"] (some (.arrayJoin (.withRef (.named "raw")) (simpleCol "raw.tree" "rtree")))
    [] none none [] none [] none).with_ [(.named "raw", raw)]
  (Sel.mk [] false [simpleCol "(rtree.1, rtree.2, rtree.3, sum(rtree.4), sum(rtree.5))" "tree"]
    (some (.withRef (.named "pre_joined"))) [] none none [.raw "rtree.1", .raw "rtree.2", .raw "rtree.3"] none
    [.raw "rtree.1"] (some (.int 2000000))).with_ [(.named "pre_joined", preJoined)]

/-- `MergeAggregatedPlanner.Process` -/
def mergeAggregated (joined : Sel) : Sel :=
  (Sel.mk [] false [simpleCol "(select groupArray(tree) from joined)" "_tree",
                    simpleCol "(select groupUniqArrayArray(functions) from raw )" "_functions"]
    none [] none none [] none [] none).with_ [(.named "joined", joined)]

/-- `PlanMergeTraces` -/
def mergeTraces (c : PCtx) (typeUnit : Bytes) (fp : PQuery) (globals : List PCond) : Sel :=
  mergeAggregated (mergeJoined (mergeRaw c typeUnit fp globals))

/-- `arrayFilter(x -> x.1 IN ('a','b'), <arr>)` (GetLabelsPlanner with GroupBy, FilterLabelsPlanner) -/
def arrayFilterIn (names : List Bytes) (arr : String) : Expr :=
  .raw ("arrayFilter(x -> " ++ utf8 (renderExpr (.isIn (.raw "x.1") (names.map .str))) ++ ", " ++ arr ++ ")")

/-- `GetLabelsPlanner.Process` -/
def getLabels (c : PCtx) (groupBy : List Bytes) (fp : PQuery) (globals : List PCond) : Sel :=
  (Sel.mk [] true
    [.raw "fingerprint",
     (if groupBy.isEmpty then simpleCol "arraySort(p.tags)" "tags" else .col (arrayFilterIn groupBy "p.tags") "tags"),
     (if groupBy.isEmpty then simpleCol "fingerprint" "new_fingerprint" else simpleCol "cityHash64(tags)" "new_fingerprint")]
    (some (.col (.raw c.seriesTable) "p")) [] none
    (some (and_ ([.isIn (.raw "fingerprint") [.withRef (.named "fp")]] ++ dateConds c ++ globals.map condExpr)))
    [] none [] none).with_ [(.named "fp", selectorSel c fp)]

/-- the value column of `SelectSeriesPlanner` -/
def seriesValueCol (typeUnit : Bytes) (avg : Bool) : Expr :=
  let cond := utf8 (renderExpr (eq (.raw "x.1") (.str typeUnit)))
  .col (.raw ("sum(toFloat64(arrayFirst(x -> " ++ cond ++ ", p.values_agg).2))" ++
    (if avg then " / sum(toFloat64(arrayFirst(x -> x.1 == " ++ cond ++ ").3))" else ""))) "value"

/-- `SelectSeriesPlanner.Process` over `labels` = `getLabels …` -/
def selectSeries (c : PCtx) (typeUnit : Bytes) (avg : Bool) (step : Int) (labels : Sel) (globals : List PCond) : Sel :=
  (Sel.mk [] false
    [simpleCol ("intDiv(p.timestamp_ns, 1000000000 * " ++ toString step ++ ") * " ++ toString step ++ " * 1000") "timestamp_ms",
     simpleCol "labels.new_fingerprint" "fingerprint", simpleCol "min(labels.tags)" "labels", seriesValueCol typeUnit avg]
    (some (.col (.raw c.profilesDistTable) "p"))
    [("any left", .named "labels", eq (.raw "p.fingerprint") (.raw "labels.fingerprint"))] none
    (some (and_ ([.isIn (.raw "p.fingerprint") [.withRef (.named "fp")],
                  ge (.raw "p.timestamp_ns") (.int c.fromNs), le (.raw "p.timestamp_ns") (.int c.toNs)] ++ globals.map condExpr)))
    [.raw "timestamp_ms", .raw "fingerprint"] none
    [.orderBy (.raw "fingerprint") .asc, .orderBy (.raw "timestamp_ms") .asc] none).with_ [(.named "labels", labels)]

/-- the three columns of the series statements -/
def seriesCols : List Expr :=
  [simpleCol "tags" "tags", simpleCol "type_id" "type_id", simpleCol "_sample_types_units" "__sample_types_units"]

def seriesFrom (c : PCtx) : Expr :=
  .arrayJoin (.col (.raw c.seriesDistTable) "p") (simpleCol "sample_types_units" "_sample_types_units")

/-- `AllTimeSeriesSelectPlanner.Process` (Series without any selector) -/
def allTimeSeries (c : PCtx) : Sel :=
  .mk [] true seriesCols (some (seriesFrom c)) [] none (some (and_ (dateConds c))) [] none [] none

/-- `TimeSeriesSelectPlanner.Process` (Series, one selector set) -/
def timeSeriesSelect (c : PCtx) (fp : PQuery) (globals : List PCond) : Sel :=
  (Sel.mk [] true seriesCols (some (seriesFrom c)) [] none
    (some (and_ ([.isIn (.raw "p.fingerprint") [.withRef (.named "fp")]] ++ dateConds c ++ globals.map condExpr)))
    [] none [] none).with_ [(.named "fp", selectorSel c fp)]

/-- `FilterLabelsPlanner.Process` over `main` (label names given) -/
def filterLabels (labels : List Bytes) (main : Sel) : Sel :=
  if labels.isEmpty then main else
  (Sel.mk [] false [.col (arrayFilterIn labels "tags") "tags", simpleCol "type_id" "type_id",
                    simpleCol "__sample_types_units" "__sample_types_units"]
    (some (.withRef (.named "pre_label_filter"))) [] none none [] none [] none).with_ [(.named "pre_label_filter", main)]

/-- `PlanSeries` for one script: without any selector the label-name filter is NOT applied (early return of
    `AllTimeSeriesSelectPlanner`) -/
def planSeries (c : PCtx) (labels : List Bytes) (sel : Option PQuery) : Sel :=
  match sel with
  | none => allTimeSeries c
  | some q => filterLabels labels (timeSeriesSelect c q q.globals)

/-- `GenericLabelsPlanner._process` without a fingerprint request (`len(scripts) == 0`): LabelNames (`key`), and
    LabelValues (`val`, plus `key == label`) -/
def labelsNoSel (c : PCtx) (col : String) (label : Option Bytes) : Sel :=
  .mk [] true [.raw col] (some (.raw c.ginDistTable)) [] none
    (some (and_ (dateConds c ++ (match label with | some l => [eq (.raw "key") (.str l)] | none => []))))
    [] none [] (some (.int 10000))

/-- `GenericLabelsPlanner._process` in general: the date bounds, `fingerprint IN fp` when a fingerprint request is given,
    then LabelValues' `key == label` -/
def labelsSel (c : PCtx) (col : String) (label : Option Bytes) (withFp : Bool) : Sel :=
  .mk [] true [.raw col] (some (.raw c.ginDistTable)) [] none
    (some (and_ (dateConds c ++ (if withFp then [.isIn (.raw "fingerprint") [.withRef (.named "fp")]] else []) ++
      (match label with | some l => [eq (.raw "key") (.str l)] | none => []))))
    [] none [] (some (.int 10000))

/-- `ProfileSizePlanner.Process` over `main` = the merge-profiles statement (AnalyzeQuery): two bracketed sub-selects over
    WITH entries (`pre_profile_size`, and the `fp` entry hoisted from `main`) as columns; no table is read here -/
def profileSize (main : Sel) : Sel :=
  (Sel.mk [] false
    [.col (.call "" [.sub (.mk [] false [.raw "sum(length(payload)::Int64)"] (some (.withRef (.named "pre_profile_size"))) [] none none [] none [] none)])
       "profile_size",
     .col (.call "" [.sub (.mk [] false [.raw "uniqExact(fingerprint)::Int64"] (some (.withRef (.named "fp"))) [] none none [] none [] none)])
       "fingerprint_count"]
    none [] none none [] none [] none).with_ [(.named "pre_profile_size", main)]

/-- `PlanAnalyzeQuery` (no type-id selectors: one selector list for both planners) -/
def analyzeQuery (c : PCtx) (q : PQuery) : Sel := profileSize (mergeProfiles c q q.globals)

/-- a statement whose one WITH entry is `(s₀) UNION ALL (s₁) …` (`UnionAllPlanner` → `unionAll.String`): the shared `Sel`
    has no place for a union as a WITH query, so the operands are kept beside the main select and `render` writes them
    the way `With.String` / `unionAll.String` / `Select.String` do -/
structure UnionStmt where
  /-- WITH entries in front of the union entry (hoisted from its first operand) -/
  pre : List (Alias × Sel) := []
  alias : String
  ops : List Sel
  /-- WITH entries after it -/
  post : List (Alias × Sel) := []
  main : Sel

def UnionStmt.render (u : UnionStmt) : Bytes :=
  b "WITH " ++ joinB (b ",") (renderWiths u.pre ++
    [b u.alias ++ b " as ((" ++ joinB (b ") UNION ALL (") (u.ops.map renderSelBody) ++ b "))"] ++ renderWiths u.post) ++
  renderSelBody u.main

/-- LabelNames / LabelValues with selector sets (`len(scripts) > 0`): `fp` = the union of their selector statements -/
def labelsUnion (c : PCtx) (col : String) (label : Option Bytes) (scripts : List PQuery) : UnionStmt :=
  { alias := "fp", ops := scripts.map (selectorSel c), main := labelsSel c col label true }

/-- the select `TimeSeriesDistinctPlanner` puts over the union -/
def preDistinctSel : Sel :=
  .mk [] true [simpleCol "tags" "tags", simpleCol "type_id" "type_id", simpleCol "__sample_types_units" "__sample_types_units"]
    (some (.withRef (.named "pre_distinct"))) [] none none [] none [] none

/-- `PlanSeries` for two or more selector sets: `pre_distinct` = the UNION ALL of one `TimeSeriesSelectPlanner` statement per
    set — rendered without their own WITH lists; the only `fp` entry is the one hoisted from the FIRST operand, so every
    operand's `p.fingerprint IN fp` refers to the first set's fingerprints (as the code is; see notes/C13.md) — under a
    DISTINCT select, and `FilterLabelsPlanner` around it when label names are given -/
def seriesUnion (c : PCtx) (labels : List Bytes) (scripts : List PQuery) : UnionStmt :=
  let fp : List (Alias × Sel) := match scripts with
    | [] => []
    | p :: _ => [(.named "fp", selectorSel c p)]
  let ops := scripts.map (fun p => timeSeriesSelect c p p.globals)
  if labels.isEmpty then { pre := fp, alias := "pre_distinct", ops := ops, main := preDistinctSel }
  else { pre := fp, alias := "pre_distinct", ops := ops, post := [(.named "pre_label_filter", preDistinctSel)],
         main := .mk [] false [.col (arrayFilterIn labels "tags") "tags", simpleCol "type_id" "type_id",
                               simpleCol "__sample_types_units" "__sample_types_units"]
                   (some (.withRef (.named "pre_label_filter"))) [] none none [] none [] none }

end Qryn.Prof
