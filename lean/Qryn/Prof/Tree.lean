import Qryn.Gen.ProfTree
/-! # Profile call trees: writer `postProcessProf` / `getNodeId`, reader `Tree.MergeTrie` / `Tree.BFS`

Core-only executable model (the driver links it).

* writer/utils/unmarshal/golangPprof.go `postProcessProf`: nested loop over samples and stack frames
  (root first), `tree[nodeId]` created on first visit, `total +=` on every frame, `self +=` on the leaf;
  rows returned in descending node-id order; `getNodeId` = `city.CH64(parent ‖ fn) >> 9 | min(depth,511) << 55`.
* reader/service/profTree.go `MergeTrie` (one sample type = what `getTree` builds), `BFS`, `Total`.
* the ClickHouse step in between (`arrayMap(x -> (x.1,x.2,x.3,af.2,af.3), tree)`) is `typeRows`.

Go maps are association lists; the map of child slices `Nodes[parent]` is the flat list of entries in
insertion order filtered by parent (`children`), which has the same elements in the same order.
`int64` values are `Int` (DESIGN §4: wrap-around is not what the property is about). -/
namespace Qryn.Prof

/-! ## generic keyed upsert (a Go `map[k]*node` / "find in slice, else append" update) -/
section Upsert
variable {α β κ : Type} [DecidableEq κ]

/-- `if e, ok := m[key b]; ok { e = comb e b } else { m[key b] = mk b }` on an association list that
    keeps insertion order (new entries are appended, as `append(t.Nodes[parent], …)` does). The update is
    written as a `map` over the entries with the key; keys stay duplicate free (`foldUpsert_nodup`), so that
    is the one entry the Go code updates (the map slot, or the first hit of `findNode`). -/
def upsertBy (key : α → κ) (kb : β → κ) (mk : β → α) (comb : α → β → α) (m : List α) (b : β) : List α :=
  if m.any (fun a => key a = kb b) then m.map (fun a => if key a = kb b then comb a b else a)
  else m ++ [mk b]

def foldUpsert (key : α → κ) (kb : β → κ) (mk : β → α) (comb : α → β → α) (m : List α) (bs : List β) : List α :=
  bs.foldl (upsertBy key kb mk comb) m
end Upsert

/-! ## `getNodeId` -/

def kMul : UInt64 := 0x9ddfea08eb382d69

/-- go-faster/city `hash128to64(U128{lo, hi})` -/
def hash128to64 (lo hi : UInt64) : UInt64 :=
  let a := (lo ^^^ hi) * kMul
  let a := a ^^^ (a >>> 47)
  let b := (hi ^^^ a) * kMul
  let b := b ^^^ (b >>> 47)
  b * kMul

def rot64 (v s : UInt64) : UInt64 := if s = 0 then v else (v >>> s) ||| (v <<< (64 - s))

/-- `city.CH64` of the 16 bytes `LE64(a) ‖ LE64(b)` (`ch0to16`, the `length > 8` branch) -/
def ch64of16 (a b : UInt64) : UInt64 := hash128to64 a (rot64 (b + 16) 16) ^^^ b

/-- `getNodeId(parentId, funcId, traceLevel)` -/
def getNodeId (parent fn depth : Nat) : Nat :=
  ((ch64of16 (UInt64.ofNat parent) (UInt64.ofNat fn)).toNat >>> Gen.ProfTree.hashShift)
    ||| ((min depth Gen.ProfTree.depthClamp) <<< Gen.ProfTree.depthShift)

/-! ## writer: `postProcessProf` -/

/-- a pprof sample as the tree builder sees it: the function id (`city.CH64` of `Line[0].Function.Name`,
    or of "n/a" when the location has no line) of each `Location`, **leaf first** as in pprof, and `Value` -/
structure Sample where
  locs : List Nat
  vals : List Int
deriving Repr, DecidableEq

structure Profile where
  ntypes : Nat            -- `len(profile.SampleType)`
  samples : List Sample
deriving Repr, DecidableEq

/-- one iteration of the inner loop: the node touched and what is added to it -/
structure Visit where
  parent : Nat
  fn : Nat
  node : Nat
  depth : Nat
  leaf : Bool             -- `i == 0`
  vals : List Int         -- `sample.Value`
deriving Repr, DecidableEq

/-- the inner loop `for i := len(locations)-1; i >= 0; i--` over the frames root first -/
def walk (nid : Nat → Nat → Nat → Nat) (vals : List Int) : Nat → Nat → List Nat → List Visit
  | _, _, [] => []
  | parent, d, f :: rest =>
    let n := nid parent f d
    ⟨parent, f, n, d, rest.isEmpty, vals⟩ :: walk nid vals n (d + 1) rest

/-- the frames walked for a sample, root first. `keepEmpty` = `Gen.ProfTreeShape.emptyStackFrame`: a sample
    without a stack is walked as one frame without line info (function "n/a"). -/
def frames (keepEmpty : Bool) (naFn : Nat) (s : Sample) : List Nat :=
  if s.locs.isEmpty then (if keepEmpty then [naFn] else []) else s.locs.reverse

def sampleVisits (nid : Nat → Nat → Nat → Nat) (keepEmpty : Bool) (naFn : Nat) (s : Sample) : List Visit :=
  walk nid s.vals 0 1 (frames keepEmpty naFn s)

/-- every `(node, sample)` step of the two nested loops, in execution order -/
def visits (nid : Nat → Nat → Nat → Nat) (keepEmpty : Bool) (naFn : Nat) (P : Profile) : List Visit :=
  P.samples.flatMap (sampleVisits nid keepEmpty naFn)

/-- a stored tree row `(parent id, function id, node id, [(self, total)] per sample type)`;
    the sample-type names are the profile's, position by position -/
structure Node where
  parent : Nat
  fn : Nat
  node : Nat
  vals : List (Int × Int)
deriving Repr, DecidableEq

/-- `for j := range node.values { total += Value[j]; if i == 0 { self += Value[j] } }`.
    `node.values` always has `len(profile.SampleType)` entries (`make([]profTrieValue, len(...))`), so the
    update is written as a rebuild over `0 … ntypes-1`. (`Value[j]` exists: pprof's `CheckValid` rejects a
    profile whose samples do not carry one value per sample type.) -/
def addVisit (ntypes : Nat) (v : Visit) (vals : List (Int × Int)) : List (Int × Int) :=
  (List.range ntypes).map (fun j =>
    ((vals.getD j (0, 0)).1 + (if v.leaf then v.vals.getD j 0 else 0), (vals.getD j (0, 0)).2 + v.vals.getD j 0))

def newNode (ntypes : Nat) (v : Visit) : Node :=
  ⟨v.parent, v.fn, v.node, addVisit ntypes v []⟩

def bumpNode (ntypes : Nat) (n : Node) (v : Visit) : Node := { n with vals := addVisit ntypes v n.vals }

/-- the `tree` map after the loops (insertion order; the Go map has none) -/
def treeMap (ntypes : Nat) (vs : List Visit) : List Node :=
  foldUpsert (fun n : Node => n.node) (fun v : Visit => v.node) (newNode ntypes) (bumpNode ntypes) [] vs

def insertDesc (a : Node) : List Node → List Node
  | [] => [a]
  | b :: l => if b.node ≤ a.node then a :: b :: l else b :: insertDesc a l

/-- `sort.Slice(indices, func(i, j) bool { return indices[i] > indices[j] })`: descending node id (the ids are
    distinct map keys, so any sorting algorithm gives this list) -/
def sortRows (m : List Node) : List Node := m.foldr insertDesc []

/-- the tree rows `postProcessProf` returns (= `ProfileData.Tree`, the stored `tree` column) -/
def storedRows (nid : Nat → Nat → Nat → Nat) (keepEmpty : Bool) (naFn : Nat) (P : Profile) : List Node :=
  sortRows (treeMap P.ntypes (visits nid keepEmpty naFn P))

/-- `calculateSumAndCount`: the per-type value sum stored in `values_agg` -/
def valueSum (P : Profile) (j : Nat) : Int := (P.samples.map (fun s => s.vals.getD j 0)).sum

/-! ## between writer and reader: one sample type of the stored rows -/

/-- a tree row for one sample type `(parent, fn, node, self, total)`: what
    `arrayMap(x -> (x.1, x.2, x.3, af.2, af.3), tree)` yields and `MergeTrie` reads; also a merged node -/
structure Row where
  parent : Nat
  fn : Nat
  node : Nat
  self : Int
  total : Int
deriving Repr, DecidableEq

def typeRow (j : Nat) (n : Node) : Row :=
  ⟨n.parent, n.fn, n.node, (n.vals.getD j (0, 0)).1, (n.vals.getD j (0, 0)).2⟩

def typeRows (j : Nat) (rows : List Node) : List Row := rows.map (typeRow j)

/-! ## reader: `MergeTrie`, `Total`, `BFS` (for the one sample type of the tree) -/

def addRow (a r : Row) : Row := { a with self := a.self + r.self, total := a.total + r.total }

/-- `MergeTrie`: under the same parent a row with a known node id is added to that child (its function id
    stays), otherwise a child is appended. The tree is the flat list of children entries. -/
def mergeTrie (T : List Row) (rows : List Row) : List Row :=
  foldUpsert (fun a : Row => (a.parent, a.node)) (fun r : Row => (r.parent, r.node)) id addRow T rows

/-- what `getTree` actually hands to `MergeTrie`: the ClickHouse request of `MergeJoinedPlanner`
    (`GROUP BY rtree.1, rtree.2, rtree.3` with `sum(rtree.4), sum(rtree.5)` over the array-joined rows of all
    selected profiles). The order of the groups is ClickHouse's (only `ORDER BY rtree.1`): theorems about it
    quantify over every permutation of this list. -/
def sqlGroup (R : List Row) : List Row :=
  foldUpsert (fun a : Row => (a.parent, a.fn, a.node)) (fun r : Row => (r.parent, r.fn, r.node)) id addRow [] R

/-- `MergeTrie` with its `NodesNum >= cap → return` exit: stops at the first row that would add a node
    beyond the cap (rows merged into existing nodes are still processed until then) -/
def mergeTrieCap (cap : Nat) : List Row → Nat → List Row → List Row
  | T, _, [] => T
  | T, num, r :: rest =>
    if T.any (fun a => (a.parent, a.node) = (r.parent, r.node)) then
      mergeTrieCap cap (upsertBy (fun a : Row => (a.parent, a.node)) (fun r : Row => (r.parent, r.node)) id addRow T r) num rest
    else if num ≥ cap then T
    else mergeTrieCap cap (T ++ [r]) (num + 1) rest

/-- `t.maxSelf[idx]`: the largest `self` among the *rows read* (not among the merged nodes) -/
def maxSelf (m : Int) (rows : List Row) : Int := rows.foldl (fun m r => if m < r.self then r.self else m) m

/-- `t.Nodes[parent]` -/
def children (T : List Row) (p : Nat) : List Row := T.filter (fun a => a.parent = p)

def sumTotals (rs : List Row) : Int := (rs.map (·.total)).sum

/-- `Tree.Total()[idx]` and the total of level 0 -/
def rootTotal (T : List Row) : Int := sumTotals (children T 0)

/-- the inner loop of `BFS` over one parent's children. `none` = a node id seen twice (`reviewed`), where
    `BFS` returns what it has so far. Result: the bars with their `prepend`, the reviewed set, the pending prepend. -/
def emitChildren : List Nat → Int → List Row → Option (List (Row × Int) × List Nat × Int)
  | rv, pre, [] => some ([], rv, pre)
  | rv, pre, c :: cs =>
    if rv.contains c.node then none
    else match emitChildren (c.node :: rv) 0 cs with
      | none => none
      | some (out, rv', pre') => some ((c, pre) :: out, rv', pre')

/-- one level of `BFS`: the loop over `currentLevelNodes` (each with the `prependMap` value recorded when
    it was emitted). Result: the next level's bars in order, and the reviewed set. -/
def bfsLevel (T : List Row) : List (Row × Int) → Int → List Nat → Option (List (Row × Int) × List Nat)
  | [], _, rv => some ([], rv)
  | (p, d) :: rest, pre, rv =>
    match children T p.node with
    | [] => bfsLevel T rest (pre + d + p.total) rv
    | c :: cs =>
      match emitChildren rv (pre + d) (c :: cs) with
      | none => none
      | some (out, rv', pre') =>
        match bfsLevel T rest (pre' + p.self) rv' with
        | none => none
        | some (out2, rv'') => some (out ++ out2, rv'')

/-- the outer `for len(currentLevelNodes) > 0` loop: the levels after level 0 -/
def bfsLoop (T : List Row) : Nat → List (Row × Int) → List Nat → List (List (Row × Int))
  | 0, _, _ => []
  | fuel + 1, cur, rv =>
    if cur.isEmpty then []
    else match bfsLevel T cur 0 rv with
      | none => []
      | some (next, rv') => next :: bfsLoop T fuel next rv'

/-- the synthetic `totalNode` of level 0 -/
def rootBar (T : List Row) : Row × Int := (⟨0, 0, 0, 0, rootTotal T⟩, 0)

/-- `BFS`: all levels, each a list of (node, prepend). Level 0 is the synthetic root.
    Every loop iteration reviews at least one new node or is the last one, so `T.length + 2` iterations
    are enough (`bfsLoop_fuel`). -/
def bfs (T : List Row) : List (List (Row × Int)) :=
  [rootBar T] :: bfsLoop T (T.length + 2) [rootBar T] []

/-- absolute spans `(node id, lo, hi)` of the bars of a level whose first bar's prepend is relative to `x`:
    the flame-graph convention (each bar's offset is relative to the end of the previous bar) -/
def spans : Int → List (Row × Int) → List (Row × Int × Int)
  | _, [] => []
  | x, (r, d) :: rest => (r, x + d, x + d + r.total) :: spans (x + d + r.total) rest

/-! ## function names (`NamesMap`) -/

/-- `MergeTrie`'s name table: function ids in order of first appearance; `Names` starts with "total","n/a" -/
def mergeNames (names : List Nat) (fns : List Nat) : List Nat :=
  fns.foldl (fun ns f => if ns.contains f then ns else ns ++ [f]) names

/-- `t.NamesMap[fnID]` (0 when absent) -/
def nameIdx (names : List Nat) (f : Nat) : Nat :=
  match names.idxOf? f with
  | some i => i + 2
  | none => 0

/-- the `Values` of a level as `BFS` emits them: prepend, total, self, name index per bar -/
def levelValues (names : List Nat) (lvl : List (Row × Int)) : List Int :=
  lvl.flatMap (fun (r, d) => [d, r.total, r.self, (nameIdx names r.fn : Int)])

end Qryn.Prof
