import Qryn.Prof.Tree
/-! # `ProfileMergeV2.Merge` — merging pprof payloads (reader/service/profMerge_v2.go, profMerge_v1.go)

Core-only executable model over DECODED profiles (`prof.Profile` after `proto.Unmarshal`), as
`ProfService.MergeProfiles` (`/querier.v1.QuerierService/SelectMergeProfile`) runs it: one `Merge` call per stored
payload, then `Profile()`.

* `sanitize` = `sanitizeProfile` (the empty string moved to index 0, string indices clamped by `str`, mappings /
  functions / locations renumbered 1…n through the maps `t`, locations with an unknown mapping or function and samples
  with a wrong number of values or an unknown location removed);
* the five `RewriteTableV2` tables are lists in insertion order; `Get` = find by key, else append a clone
  (`intern*`). The keys are `hashString`, `GetFunctionKey`, `GetMappingKey`, `GetLocationKey`, `GetSampleKey`:
  CityHash64 of a text / byte rendering of the key fields. The model keys by the rendered CONTENT (`FunKey` …), i.e.
  CityHash64 is taken to be injective on the keys that occur (the same kind of hypothesis as `NoCollision`); the
  bit packing inside the keys (`FunctionId | Line<<32`, `Key | Str<<32`, the 4 KiB rounding of the mapping size) is
  mirrored exactly;
* `mergeOne` = `Merge` (with `init`, `combineHeaders`, `compatible`), `result` = `Profile()`.

Strings are `String`, ids `Nat` (`uint64`), string indices and values `Int` (`int64`).
Faults: `Merge` dereferences `p.PeriodType` — a payload without period type is a nil dereference (the pinned writer
cannot store one: it dereferences the period type itself). The two index faults of the hashing helpers (a sample
without a stack, a location without lines) are repaired in the source (`Gen.ProfMergeShape`). -/
namespace Qryn.Prof.Pprof

structure VT where
  type : Int
  unit : Int
deriving Repr, DecidableEq

structure PLabel where
  key : Int
  str : Int
  num : Int
  numUnit : Int
deriving Repr, DecidableEq

structure PSample where
  locs : List Nat
  vals : List Int
  labels : List PLabel
deriving Repr, DecidableEq

structure PMapping where
  id : Nat
  start : Nat
  limit : Nat
  offset : Nat
  filename : Int
  buildId : Int
  flags : Nat            -- HasFunctions, HasFilenames, HasLineNumbers, HasInlineFrames (carried along)
deriving Repr, DecidableEq

structure PLine where
  fn : Nat
  line : Nat             -- `uint64(line.Line)`
  column : Int
deriving Repr, DecidableEq

structure PLocation where
  id : Nat
  mapping : Nat
  address : Nat
  lines : List PLine
  folded : Bool
deriving Repr, DecidableEq

structure PFunction where
  id : Nat
  name : Int
  sysName : Int
  filename : Int
  startLine : Int
deriving Repr, DecidableEq

structure PProfile where
  strings : List String
  sampleTypes : List VT
  periodType : Option VT
  samples : List PSample
  mappings : List PMapping
  locations : List PLocation
  functions : List PFunction
  dropFrames : Int
  keepFrames : Int
  timeNanos : Int
  durationNanos : Int
  period : Int
  comments : List Int
  defaultSampleType : Int
deriving Repr, DecidableEq

/-! ## `sanitizeProfile` -/

/-- a Go `map[uint64]uint64` filled by `t[k] = v` in a loop: the last assignment wins, a missing key reads 0 -/
abbrev IdMap := List (Nat × Nat)
def IdMap.get (t : IdMap) (k : Nat) : Nat :=
  match t.find? (fun p => p.1 == k) with
  | some p => p.2
  | none => 0
/-- `t[k] = v` (newest first) -/
def IdMap.set (t : IdMap) (k v : Nat) : IdMap := (k, v) :: t

def swap0 (l : List String) (z : Nat) : List String :=
  (l.set 0 (l.getD z "")).set z (l.getD 0 "")

/-- the closure `str` of `sanitizeProfile` for a table of `ms` strings whose empty string was found at `z` -/
def strFix (ms z : Nat) (i : Int) : Int :=
  if i = 0 ∧ 0 < z then (z : Int)
  else if i = (z : Int) ∨ (ms : Int) ≤ i ∨ i < 0 then 0
  else i

/-- renumber a list 1…n, recording old id → new id -/
def renumber {α : Type} (getId : α → Nat) (setId : α → Nat → α) : List α → Nat → IdMap → List α × IdMap
  | [], _, t => ([], t)
  | x :: xs, j, t =>
    let r := renumber getId setId xs (j + 1) (t.set (getId x) j)
    (setId x j :: r.1, r.2)

/-- first pass over the locations: a location without mapping gets the synthetic mapping `synth`;
    otherwise its mapping id goes through `t` and the location is dropped when that gives 0.
    Result: kept locations, whether the synthetic mapping was needed. -/
def locPass1 (t : IdMap) (synth : Nat) : List PLocation → List PLocation × Bool
  | [] => ([], false)
  | x :: xs =>
    let r := locPass1 t synth xs
    if x.mapping = 0 then ({ x with mapping := synth } :: r.1, true)
    else if t.get x.mapping = 0 then r
    else ({ x with mapping := t.get x.mapping } :: r.1, r.2)

/-- second pass: function ids of the lines through `t`; a location with a line whose function is unknown is dropped -/
def locPass2 (t : IdMap) (ls : List PLocation) : List PLocation :=
  ls.filterMap (fun x =>
    if x.lines.any (fun l => t.get l.fn == 0) then none
    else some { x with lines := x.lines.map (fun l => { l with fn := t.get l.fn }) })

def sanSample (str : Int → Int) (t : IdMap) (vs : Nat) (x : PSample) : Option PSample :=
  if x.vals.length ≠ vs then none
  else if x.locs.any (fun l => t.get l == 0) then none
  else some { x with locs := x.locs.map t.get,
                     labels := x.labels.map (fun l => { l with key := str l.key, str := str l.str, numUnit := str l.numUnit }) }

def sanitize (p : PProfile) : PProfile :=
  let ms0 := p.strings.length
  let zi := p.strings.findIdx? (· == "")
  let z := zi.getD ms0
  let strings0 := if zi.isSome then p.strings else p.strings ++ [""]
  let ms := strings0.length
  let strings := swap0 strings0 z
  let str := strFix ms z
  let sampleTypes := p.sampleTypes.map (fun x => ⟨str x.type, str x.unit⟩)
  let periodType := p.periodType.map (fun x => ⟨str x.type, str x.unit⟩)
  let mp := renumber (·.id) (fun (m : PMapping) j => { m with id := j })
              (p.mappings.map (fun m => { m with buildId := str m.buildId, filename := str m.filename })) 1 []
  let l1 := locPass1 mp.2 (mp.1.length + 1) p.locations
  let mappings := if l1.2 then mp.1 ++ [⟨mp.1.length + 1, 0, 0, 0, 0, 0, 0⟩] else mp.1
  let fp := renumber (·.id) (fun (f : PFunction) j => { f with id := j })
              (p.functions.map (fun f => { f with name := str f.name, sysName := str f.sysName, filename := str f.filename })) 1 []
  let l2 := locPass2 fp.2 l1.1
  let lp := renumber (·.id) (fun (l : PLocation) j => { l with id := j }) l2 1 []
  let samples := p.samples.filterMap (sanSample str lp.2 sampleTypes.length)
  { strings := strings, sampleTypes := sampleTypes, periodType := periodType, samples := samples,
    mappings := mappings, locations := lp.1, functions := fp.1,
    dropFrames := str p.dropFrames, keepFrames := str p.keepFrames, timeNanos := p.timeNanos,
    durationNanos := p.durationNanos, period := p.period, comments := p.comments.map str,
    defaultSampleType := str p.defaultSampleType }

/-! ## keys of the rewrite tables -/

def two64 : Nat := 18446744073709551616

/-- `uint64(i)` of an `int64` -/
def u64 (i : Int) : Nat := (i % (two64 : Int)).toNat

abbrev FunKey := Int × Int × Int × Int
/-- `GetFunctionKey`: `"%d:%d:%d:%d"` of StartLine, Name, SystemName, Filename -/
def funKey (f : PFunction) : FunKey := (f.startLine, f.name, f.sysName, f.filename)

abbrev MapKey := Nat × Nat × Int
/-- `GetMappingKey`: size rounded up to 4 KiB (uint64 arithmetic), file offset, build id or else file name -/
def mapKey (m : PMapping) : MapKey :=
  let size := (m.limit + two64 - m.start % two64) % two64
  let size := (size + 0x1000 - 1) % two64
  let size := size - size % 0x1000
  (size, m.offset, if m.buildId ≠ 0 then m.buildId else if m.filename ≠ 0 then m.filename else 0)

/-- `hashLines`: the `uint64` array `FunctionId | Line << 32` (0 for no lines after the repair — the hash of the
    empty array is not distinguished from a colliding array, as for labels) -/
def linesKey (ls : List PLine) : List Nat := ls.map (fun l => (l.fn ||| (l.line <<< 32)) % two64)

abbrev LocKey := Nat × List Nat × Nat
/-- `GetLocationKey` -/
def locKey (l : PLocation) : LocKey := (l.address, linesKey l.lines, l.mapping)

def labelLe (a b : PLabel) : Bool := decide (a.key < b.key ∨ (a.key = b.key ∧ a.str ≤ b.str))

def insertLabel (a : PLabel) : List PLabel → List PLabel
  | [] => [a]
  | b :: l => if labelLe a b then a :: b :: l else b :: insertLabel a l

/-- `hashProfileLabels`: sorted by (Key, Str), then the array `uint64(Key) | uint64(Str) << 32`; `Num`/`NumUnit` do not
    enter the key -/
def labelsKey (ls : List PLabel) : List Nat :=
  (ls.foldr insertLabel []).map (fun l => (u64 l.key ||| (u64 l.str <<< 32)) % two64)

abbrev SampleKey := List Nat × List Nat
/-- `GetSampleKey` -/
def sampleKey (s : PSample) : SampleKey := (s.locs, labelsKey s.labels)

/-! ## `RewriteTableV2.Get` -/

/-- find by key, else append `mk x`; returns the table and the 1-based index (`Get`'s first result) -/
def intern {α κ : Type} [DecidableEq κ] (key : α → κ) (mk : α → Nat → α) (tab : List α) (x : α) : List α × Nat :=
  match tab.findIdx? (fun a => decide (key a = key x)) with
  | some i => (tab, i + 1)
  | none => (tab ++ [mk x (tab.length + 1)], tab.length + 1)

/-- intern a list of values in order; result: the table and the index of each -/
def internAll {α κ : Type} [DecidableEq κ] (key : α → κ) (mk : α → Nat → α) : List α → List α → List α × List Nat
  | tab, [] => (tab, [])
  | tab, x :: xs =>
    let r := intern key mk tab x
    let r' := internAll key mk r.1 xs
    (r'.1, r.2 :: r'.2)

/-! ## `Merge` -/

structure Header where
  dropFrames : Int
  keepFrames : Int
  timeNanos : Int
  durationNanos : Int
  periodType : VT
  period : Int
  defaultSampleType : Int
  sampleTypes : List VT
deriving Repr, DecidableEq

structure MState where
  header : Option Header          -- `pm.prof`
  strings : List String
  functions : List PFunction
  mappings : List PMapping
  locations : List PLocation
  samples : List PSample
deriving Repr, DecidableEq

def MState.empty : MState := ⟨none, [], [], [], [], []⟩

inductive MergeErr where
  | nilPeriodType          -- a Go panic (nil dereference)
  | incompatible           -- the error `compatible` returns
deriving Repr, DecidableEq

/-- `strIdx[i]` for an index `sanitizeProfile` has clamped into the table -/
def ix (strIdx : List Nat) (i : Int) : Int := (strIdx.getD i.toNat 0 : Nat)

/-- ids of a sanitized table are 1…n in order, so the Go maps `fnIdx`/`mappingIdx`/`locationIdx` are these lists -/
def idAt (idx : List Nat) (id : Nat) : Nat := if id = 0 then 0 else idx.getD (id - 1) 0

/-- `_s.Value[i] += s.Value[i]` for `i` over `_s.Value` -/
def addVals (acc vals : List Int) : List Int := acc.zipIdx.map (fun vi => vi.1 + vals.getD vi.2 0)

def upsertSample (tab : List PSample) (s : PSample) : List PSample :=
  upsertBy sampleKey sampleKey (fun s => { s with vals := addVals (List.replicate s.vals.length 0) s.vals })
    (fun a s => { a with vals := addVals a.vals s.vals }) tab s

def vtEq (a b : VT) : Bool := a.type == b.type && a.unit == b.unit

def compatible (h : Header) (pt : VT) (sts : List VT) : Bool :=
  vtEq h.periodType pt && decide (sts.length = h.sampleTypes.length)
    && (h.sampleTypes.zip sts).all (fun ab => vtEq ab.1 ab.2)

/-- `combineHeaders(a, b)` after `compatible` passed -/
def combineHeaders (a : Header) (timeNanos durationNanos period defaultSampleType : Int) : Header :=
  { a with
    timeNanos := if a.timeNanos = 0 ∨ timeNanos < a.timeNanos then timeNanos else a.timeNanos
    durationNanos := a.durationNanos + durationNanos
    period := if a.period = 0 ∨ a.period < period then period else a.period
    defaultSampleType := if a.defaultSampleType = 0 then defaultSampleType else a.defaultSampleType }

/-- `ProfileMergeV2.Merge(p)` -/
def mergeOne (st : MState) (p0 : PProfile) : Except MergeErr MState :=
  if p0.samples.isEmpty ∨ p0.strings.length < 2 then .ok st
  else
    let p := sanitize p0
    let sr := internAll (fun (s : String) => s) (fun s _ => s) st.strings p.strings
    let strings := sr.1
    let sx := ix (sr.2.map (· - 1))
    match p.periodType with
    | none => .error .nilPeriodType
    | some pt0 =>
      let pt : VT := ⟨sx pt0.type, sx pt0.unit⟩
      let sts := p.sampleTypes.map (fun s => (⟨sx s.type, sx s.unit⟩ : VT))
      let dropFrames := sx p.dropFrames
      let keepFrames := sx p.keepFrames
      let dst := sx p.defaultSampleType
      let h0 : Header := match st.header with
        | some h => h
        | none => ⟨dropFrames, keepFrames, p.timeNanos, 0, pt, p.period, dst, sts⟩
      if !(compatible h0 pt sts) then .error .incompatible
      else
        let h := combineHeaders h0 p.timeNanos p.durationNanos p.period dst
        let fr := internAll funKey (fun f i => { f with id := i }) st.functions
          (p.functions.map (fun f => { f with name := sx f.name, filename := sx f.filename, sysName := sx f.sysName }))
        let mr := internAll mapKey (fun m i => { m with id := i }) st.mappings
          (p.mappings.map (fun m => { m with buildId := sx m.buildId, filename := sx m.filename }))
        let lr := internAll locKey (fun l i => { l with id := i }) st.locations
          (p.locations.map (fun l => { l with lines := l.lines.map (fun ln => { ln with fn := idAt fr.2 ln.fn }),
                                              mapping := idAt mr.2 l.mapping }))
        let samples := p.samples.foldl (fun tab s =>
          upsertSample tab { s with
            labels := s.labels.map (fun l => { l with key := sx l.key, str := sx l.str, numUnit := sx l.numUnit }),
            locs := s.locs.map (idAt lr.2) }) st.samples
        .ok ⟨some h, strings, fr.1, mr.1, lr.1, samples⟩

/-- one `Merge` call per payload, stopping at the first error (`MergeProfiles` returns it) -/
def mergeAll : MState → List PProfile → Except MergeErr MState
  | st, [] => .ok st
  | st, p :: ps =>
    match mergeOne st p with
    | .ok st' => mergeAll st' ps
    | .error e => .error e

/-- `ProfileMergeV2.Profile()`: the tables with ids 1…n (`&prof.Profile{}` when nothing was merged) -/
def result (st : MState) : PProfile :=
  match st.header with
  | none => ⟨[], [], none, [], [], [], [], 0, 0, 0, 0, 0, [], 0⟩
  | some h =>
    { strings := st.strings, sampleTypes := h.sampleTypes, periodType := some h.periodType,
      samples := st.samples,
      mappings := st.mappings.zipIdx.map (fun mi => { mi.1 with id := mi.2 + 1 }),
      locations := st.locations.zipIdx.map (fun li => { li.1 with id := li.2 + 1 }),
      functions := st.functions.zipIdx.map (fun fi => { fi.1 with id := fi.2 + 1 }),
      dropFrames := h.dropFrames, keepFrames := h.keepFrames, timeNanos := h.timeNanos,
      durationNanos := h.durationNanos, period := h.period, comments := [], defaultSampleType := h.defaultSampleType }

end Qryn.Prof.Pprof
