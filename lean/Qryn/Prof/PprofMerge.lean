import Qryn.Prof.Tree
/-! # `ProfileMergeV2.Merge` — merging pprof payloads (reader/service/profMerge_v2.go, profMerge_v1.go)

Core-only executable model over DECODED profiles (`prof.Profile` after `proto.Unmarshal`), as
`ProfService.MergeProfiles` (`/querier.v1.QuerierService/SelectMergeProfile`) runs it: one `Merge` call per stored
payload, then `Profile()`.

* `sanitize` = `sanitizeProfile` (the empty string moved to index 0, string indices clamped by `str`, mappings /
  functions / locations renumbered 1…n through the maps `t`, locations with an unknown mapping or function and samples
  with a wrong number of values or an unknown location removed);
* the five `RewriteTableV2` tables are lists in insertion order; `Get` = find by key, else append a clone
  (`intern*`). The keys are `hashString`, `GetFunctionKey`, `GetMappingKey`, `GetLocationKey`, `GetSampleKey`:
  CityHash64 of a text / byte rendering of the key fields. The model keys by the rendered CONTENT (`FunKey` …), i.e.
  CityHash64 is taken to be injective on the keys that occur (the same kind of hypothesis as `NoCollision`); the
  bit packing inside the keys (`FunctionId | Line<<32`, `Key | Str<<32`, the 4 KiB rounding of the mapping size) is
  mirrored exactly;
* `mergeOne` = `Merge` (with `init`, `combineHeaders`, `compatible`), `result` = `Profile()`.

Strings are `String`, ids `Nat` (`uint64`), string indices and values `Int` (`int64`).
Faults: `Merge` dereferences `p.PeriodType` — a payload without period type is a nil dereference (the pinned writer
cannot store one: it dereferences the period type itself). The two index faults of the hashing helpers (a sample
without a stack, a location without lines) are repaired in the source (`Gen.ProfMergeShape`). -/
namespace Qryn.Prof.Pprof

structure VT where
  type : Int
  unit : Int
deriving Repr, DecidableEq

structure PLabel where
  key : Int
  str : Int
  num : Int
  numUnit : Int
deriving Repr, DecidableEq

structure PSample where
  locs : List Nat
  vals : List Int
  labels : List PLabel
deriving Repr, DecidableEq

structure PMapping where
  id : Nat
  start : Nat
  limit : Nat
  offset : Nat
  filename : Int
  buildId : Int
  flags : Nat            -- HasFunctions, HasFilenames, HasLineNumbers, HasInlineFrames (carried along)
deriving Repr, DecidableEq

structure PLine where
  fn : Nat
  line : Nat             -- `uint64(line.Line)`
  column : Int
deriving Repr, DecidableEq

structure PLocation where
  id : Nat
  mapping : Nat
  address : Nat
  lines : List PLine
  folded : Bool
deriving Repr, DecidableEq

structure PFunction where
  id : Nat
  name : Int
  sysName : Int
  filename : Int
  startLine : Int
deriving Repr, DecidableEq

structure PProfile where
  strings : List String
  sampleTypes : List VT
  periodType : Option VT
  samples : List PSample
  mappings : List PMapping
  locations : List PLocation
  functions : List PFunction
  dropFrames : Int
  keepFrames : Int
  timeNanos : Int
  durationNanos : Int
  period : Int
  comments : List Int
  defaultSampleType : Int
deriving Repr, DecidableEq

/-! ## `sanitizeProfile` -/

/-- a Go `map[uint64]uint64` filled by `t[k] = v` in a loop: the last assignment wins, a missing key reads 0 -/
abbrev IdMap := List (Nat × Nat)
def IdMap.get (t : IdMap) (k : Nat) : Nat :=
  match t.find? (fun p => p.1 == k) with
  | some p => p.2
  | none => 0
/-- `t[k] = v` (newest first) -/
def IdMap.set (t : IdMap) (k v : Nat) : IdMap := (k, v) :: t

def swap0 (l : List String) (z : Nat) : List String :=
  (l.set 0 (l.getD z "")).set z (l.getD 0 "")

/-- the closure `str` of `sanitizeProfile` for a table of `ms` strings whose empty string was found at `z` -/
def strFix (ms z : Nat) (i : Int) : Int :=
  if i = 0 ∧ 0 < z then (z : Int)
  else if i = (z : Int) ∨ (ms : Int) ≤ i ∨ i < 0 then 0
  else i

/-- renumber a list 1…n, recording old id → new id -/
def renumber {α : Type} (getId : α → Nat) (setId : α → Nat → α) : List α → Nat → IdMap → List α × IdMap
  | [], _, t => ([], t)
  | x :: xs, j, t =>
    let r := renumber getId setId xs (j + 1) (t.set (getId x) j)
    (setId x j :: r.1, r.2)

/-- first pass over the locations: a location without mapping gets the synthetic mapping `synth`;
    otherwise its mapping id goes through `t` and the location is dropped when that gives 0.
    Result: kept locations, whether the synthetic mapping was needed. -/
def locPass1 (t : IdMap) (synth : Nat) : List PLocation → List PLocation × Bool
  | [] => ([], false)
  | x :: xs =>
    let r := locPass1 t synth xs
    if x.mapping = 0 then ({ x with mapping := synth } :: r.1, true)
    else if t.get x.mapping = 0 then r
    else ({ x with mapping := t.get x.mapping } :: r.1, r.2)

/-- second pass: function ids of the lines through `t`; a location with a line whose function is unknown is dropped -/
def locPass2 (t : IdMap) (ls : List PLocation) : List PLocation :=
  ls.filterMap (fun x =>
    if x.lines.any (fun l => t.get l.fn == 0) then none
    else some { x with lines := x.lines.map (fun l => { l with fn := t.get l.fn }) })

def sanSample (str : Int → Int) (t : IdMap) (vs : Nat) (x : PSample) : Option PSample :=
  if x.vals.length ≠ vs then none
  else if x.locs.any (fun l => t.get l == 0) then none
  else some { x with locs := x.locs.map t.get,
                     labels := x.labels.map (fun l => { l with key := str l.key, str := str l.str, numUnit := str l.numUnit }) }

/-- index of the first empty string (`z`), or the table's length when there is none (one is appended then) -/
def sanZ (p : PProfile) : Nat := (p.strings.findIdx? (· == "")).getD p.strings.length

/-- the string table with an empty string guaranteed (before the swap) -/
def sanStrings0 (p : PProfile) : List String :=
  if (p.strings.findIdx? (· == "")).isSome then p.strings else p.strings ++ [""]

def sanStrings (p : PProfile) : List String := swap0 (sanStrings0 p) (sanZ p)

/-- the closure `str` for this payload -/
def sanStr (p : PProfile) : Int → Int := strFix (sanStrings0 p).length (sanZ p)

def sanSampleTypes (p : PProfile) : List VT := p.sampleTypes.map (fun x => ⟨sanStr p x.type, sanStr p x.unit⟩)

/-- mappings renumbered 1…n, and the map old id → new id -/
def sanMap (p : PProfile) : List PMapping × IdMap :=
  renumber (·.id) (fun (m : PMapping) j => { m with id := j })
    (p.mappings.map (fun m => { m with buildId := sanStr p m.buildId, filename := sanStr p m.filename })) 1 []

def sanLoc1 (p : PProfile) : List PLocation × Bool := locPass1 (sanMap p).2 ((sanMap p).1.length + 1) p.locations

def sanMappings (p : PProfile) : List PMapping :=
  if (sanLoc1 p).2 then (sanMap p).1 ++ [⟨(sanMap p).1.length + 1, 0, 0, 0, 0, 0, 0⟩] else (sanMap p).1

def sanFun (p : PProfile) : List PFunction × IdMap :=
  renumber (·.id) (fun (f : PFunction) j => { f with id := j })
    (p.functions.map (fun f => { f with name := sanStr p f.name, sysName := sanStr p f.sysName, filename := sanStr p f.filename })) 1 []

def sanLoc (p : PProfile) : List PLocation × IdMap :=
  renumber (·.id) (fun (l : PLocation) j => { l with id := j }) (locPass2 (sanFun p).2 (sanLoc1 p).1) 1 []

def sanSamples (p : PProfile) : List PSample :=
  p.samples.filterMap (sanSample (sanStr p) (sanLoc p).2 (sanSampleTypes p).length)

def sanitize (p : PProfile) : PProfile :=
  { strings := sanStrings p, sampleTypes := sanSampleTypes p,
    periodType := p.periodType.map (fun x => ⟨sanStr p x.type, sanStr p x.unit⟩), samples := sanSamples p,
    mappings := sanMappings p, locations := (sanLoc p).1, functions := (sanFun p).1,
    dropFrames := sanStr p p.dropFrames, keepFrames := sanStr p p.keepFrames, timeNanos := p.timeNanos,
    durationNanos := p.durationNanos, period := p.period, comments := p.comments.map (sanStr p),
    defaultSampleType := sanStr p p.defaultSampleType }

/-! ## keys of the rewrite tables -/

def two64 : Nat := 18446744073709551616

/-- `uint64(i)` of an `int64` -/
def u64 (i : Int) : Nat := (i % (two64 : Int)).toNat

abbrev FunKey := Int × Int × Int × Int
/-- `GetFunctionKey`: `"%d:%d:%d:%d"` of StartLine, Name, SystemName, Filename -/
def funKey (f : PFunction) : FunKey := (f.startLine, f.name, f.sysName, f.filename)

abbrev MapKey := Nat × Nat × Int
/-- `GetMappingKey`: size rounded up to 4 KiB (uint64 arithmetic), file offset, build id or else file name -/
def mapKey (m : PMapping) : MapKey :=
  let size := (m.limit + two64 - m.start % two64) % two64
  let size := (size + 0x1000 - 1) % two64
  let size := size - size % 0x1000
  (size, m.offset, if m.buildId ≠ 0 then m.buildId else if m.filename ≠ 0 then m.filename else 0)

/-- `hashLines`: the `uint64` array `FunctionId | Line << 32` (0 for no lines after the repair — the hash of the
    empty array is not distinguished from a colliding array, as for labels) -/
def linesKey (ls : List PLine) : List Nat := ls.map (fun l => (l.fn ||| (l.line <<< 32)) % two64)

abbrev LocKey := Nat × List Nat × Nat
/-- `GetLocationKey` -/
def locKey (l : PLocation) : LocKey := (l.address, linesKey l.lines, l.mapping)

def labelLe (a b : PLabel) : Bool := decide (a.key < b.key ∨ (a.key = b.key ∧ a.str ≤ b.str))

def insertLabel (a : PLabel) : List PLabel → List PLabel
  | [] => [a]
  | b :: l => if labelLe a b then a :: b :: l else b :: insertLabel a l

/-- `hashProfileLabels`: sorted by (Key, Str), then the array `uint64(Key) | uint64(Str) << 32`; `Num`/`NumUnit` do not
    enter the key -/
def labelsKey (ls : List PLabel) : List Nat :=
  (ls.foldr insertLabel []).map (fun l => (u64 l.key ||| (u64 l.str <<< 32)) % two64)

abbrev SampleKey := List Nat × List Nat
/-- `GetSampleKey` -/
def sampleKey (s : PSample) : SampleKey := (s.locs, labelsKey s.labels)

/-! ## `RewriteTableV2.Get` -/

/-- find by key, else append `mk x`; returns the table and the 1-based index (`Get`'s first result) -/
def intern {α κ : Type} [DecidableEq κ] (key : α → κ) (mk : α → Nat → α) (tab : List α) (x : α) : List α × Nat :=
  match tab.findIdx? (fun a => decide (key a = key x)) with
  | some i => (tab, i + 1)
  | none => (tab ++ [mk x (tab.length + 1)], tab.length + 1)

/-- intern a list of values in order; result: the table and the index of each -/
def internAll {α κ : Type} [DecidableEq κ] (key : α → κ) (mk : α → Nat → α) : List α → List α → List α × List Nat
  | tab, [] => (tab, [])
  | tab, x :: xs =>
    let r := intern key mk tab x
    let r' := internAll key mk r.1 xs
    (r'.1, r.2 :: r'.2)

/-! ## `Merge` -/

structure Header where
  dropFrames : Int
  keepFrames : Int
  timeNanos : Int
  durationNanos : Int
  periodType : VT
  period : Int
  defaultSampleType : Int
  sampleTypes : List VT
deriving Repr, DecidableEq

structure MState where
  header : Option Header          -- `pm.prof`
  strings : List String
  functions : List PFunction
  mappings : List PMapping
  locations : List PLocation
  samples : List PSample
deriving Repr, DecidableEq

def MState.empty : MState := ⟨none, [], [], [], [], []⟩

inductive MergeErr where
  | nilPeriodType          -- a Go panic (nil dereference)
  | incompatible           -- the error `compatible` returns
deriving Repr, DecidableEq

/-- `strIdx[i]` for an index `sanitizeProfile` has clamped into the table -/
def ix (strIdx : List Nat) (i : Int) : Int := (strIdx.getD i.toNat 0 : Nat)

/-- ids of a sanitized table are 1…n in order, so the Go maps `fnIdx`/`mappingIdx`/`locationIdx` are these lists -/
def idAt (idx : List Nat) (id : Nat) : Nat := if id = 0 then 0 else idx.getD (id - 1) 0

/-- `_s.Value[i] += s.Value[i]` for `i` over `_s.Value` -/
def addVals (acc vals : List Int) : List Int := acc.zipIdx.map (fun vi => vi.1 + vals.getD vi.2 0)

def upsertSample (tab : List PSample) (s : PSample) : List PSample :=
  upsertBy sampleKey sampleKey (fun s => { s with vals := addVals (List.replicate s.vals.length 0) s.vals })
    (fun a s => { a with vals := addVals a.vals s.vals }) tab s

def vtEq (a b : VT) : Bool := a.type == b.type && a.unit == b.unit

def compatible (h : Header) (pt : VT) (sts : List VT) : Bool :=
  vtEq h.periodType pt && decide (sts.length = h.sampleTypes.length)
    && (h.sampleTypes.zip sts).all (fun ab => vtEq ab.1 ab.2)

/-- `combineHeaders(a, b)` after `compatible` passed -/
def combineHeaders (a : Header) (timeNanos durationNanos period defaultSampleType : Int) : Header :=
  { a with
    timeNanos := if a.timeNanos = 0 ∨ timeNanos < a.timeNanos then timeNanos else a.timeNanos
    durationNanos := a.durationNanos + durationNanos
    period := if a.period = 0 ∨ a.period < period then period else a.period
    defaultSampleType := if a.defaultSampleType = 0 then defaultSampleType else a.defaultSampleType }

/-- the string table after interning the payload's strings, and `strIdx` as a function on (sanitized) indices -/
def stepStrings (strings : List String) (p : PProfile) : List String × (Int → Int) :=
  let sr := internAll (fun (s : String) => s) (fun s _ => s) strings p.strings
  (sr.1, ix (sr.2.map (· - 1)))

def rewriteFunction (sx : Int → Int) (f : PFunction) : PFunction :=
  { f with name := sx f.name, filename := sx f.filename, sysName := sx f.sysName }

def rewriteMapping (sx : Int → Int) (m : PMapping) : PMapping :=
  { m with buildId := sx m.buildId, filename := sx m.filename }

def rewriteLocation (fidx midx : List Nat) (l : PLocation) : PLocation :=
  { l with lines := l.lines.map (fun ln => { ln with fn := idAt fidx ln.fn }), mapping := idAt midx l.mapping }

def rewriteSample (sx : Int → Int) (lidx : List Nat) (s : PSample) : PSample :=
  { s with labels := s.labels.map (fun l => { l with key := sx l.key, str := sx l.str, numUnit := sx l.numUnit }),
           locs := s.locs.map (idAt lidx) }

def stepFunctions (sx : Int → Int) (tab : List PFunction) (p : PProfile) : List PFunction × List Nat :=
  internAll funKey (fun f i => { f with id := i }) tab (p.functions.map (rewriteFunction sx))

def stepMappings (sx : Int → Int) (tab : List PMapping) (p : PProfile) : List PMapping × List Nat :=
  internAll mapKey (fun m i => { m with id := i }) tab (p.mappings.map (rewriteMapping sx))

def stepLocations (fidx midx : List Nat) (tab : List PLocation) (p : PProfile) : List PLocation × List Nat :=
  internAll locKey (fun l i => { l with id := i }) tab (p.locations.map (rewriteLocation fidx midx))

def stepSamples (sx : Int → Int) (lidx : List Nat) (tab : List PSample) (p : PProfile) : List PSample :=
  (p.samples.map (rewriteSample sx lidx)).foldl upsertSample tab

/-- the header `Merge` works with: `pm.prof`, or what `init(p)` makes of the first payload -/
def headerFor (st : Option Header) (sx : Int → Int) (p : PProfile) (pt : VT) : Header :=
  match st with
  | some h => h
  | none => ⟨sx p.dropFrames, sx p.keepFrames, p.timeNanos, 0, pt, p.period, sx p.defaultSampleType,
             p.sampleTypes.map (fun s => (⟨sx s.type, sx s.unit⟩ : VT))⟩

/-- `ProfileMergeV2.Merge(p)` on a payload that is not skipped, already sanitized -/
def mergeSanitized (st : MState) (p : PProfile) : Except MergeErr MState :=
  let ss := stepStrings st.strings p
  let sx := ss.2
  match p.periodType with
  | none => .error .nilPeriodType
  | some pt0 =>
    let pt : VT := ⟨sx pt0.type, sx pt0.unit⟩
    let sts := p.sampleTypes.map (fun s => (⟨sx s.type, sx s.unit⟩ : VT))
    let h0 := headerFor st.header sx p pt
    if !(compatible h0 pt sts) then .error .incompatible
    else
      let h := combineHeaders h0 p.timeNanos p.durationNanos p.period (sx p.defaultSampleType)
      let fr := stepFunctions sx st.functions p
      let mr := stepMappings sx st.mappings p
      let lr := stepLocations fr.2 mr.2 st.locations p
      .ok ⟨some h, ss.1, fr.1, mr.1, lr.1, stepSamples sx lr.2 st.samples p⟩

/-- `ProfileMergeV2.Merge(p)`: payloads without samples or with fewer than two strings are skipped -/
def skipped (p : PProfile) : Bool := p.samples.isEmpty || decide (p.strings.length < 2)

def mergeOne (st : MState) (p0 : PProfile) : Except MergeErr MState :=
  if skipped p0 then .ok st else mergeSanitized st (sanitize p0)

/-- one `Merge` call per payload, stopping at the first error (`MergeProfiles` returns it) -/
def mergeAll : MState → List PProfile → Except MergeErr MState
  | st, [] => .ok st
  | st, p :: ps =>
    match mergeOne st p with
    | .ok st' => mergeAll st' ps
    | .error e => .error e

/-- `ProfileMergeV2.Profile()`: the tables with ids 1…n (`&prof.Profile{}` when nothing was merged) -/
def result (st : MState) : PProfile :=
  match st.header with
  | none => ⟨[], [], none, [], [], [], [], 0, 0, 0, 0, 0, [], 0⟩
  | some h =>
    { strings := st.strings, sampleTypes := h.sampleTypes, periodType := some h.periodType,
      samples := st.samples,
      mappings := st.mappings.zipIdx.map (fun mi => { mi.1 with id := mi.2 + 1 }),
      locations := st.locations.zipIdx.map (fun li => { li.1 with id := li.2 + 1 }),
      functions := st.functions.zipIdx.map (fun fi => { fi.1 with id := fi.2 + 1 }),
      dropFrames := h.dropFrames, keepFrames := h.keepFrames, timeNanos := h.timeNanos,
      durationNanos := h.durationNanos, period := h.period, comments := [], defaultSampleType := h.defaultSampleType }

end Qryn.Prof.Pprof
