import Qryn.Prof.Tree
/-! # Selecting one sample type of the stored rows by NAME

`MergeRawPlanner` (reader/prof/transpiler/planner_merge_raw.go) projects the stored `tree` column with
`arrayMap(x -> (x.1, x.2, x.3, (arrayFirst(y -> y.1 == '<type>:<unit>', x.4) as af).2, af.3), tree)`:
per node the FIRST value tuple whose name equals the requested `type:unit`; ClickHouse's `arrayFirst` yields the
default tuple `('', 0, 0)` when there is none. The writer names value position `j` after sample type `j`
(`SamplesTypesUnits`), so the selection is by position of the first sample type with that name. -/
namespace Qryn.Prof

/-- position of the first sample type named `name` (`names.length` when there is none) -/
def firstIdx (names : List String) (name : String) : Nat := names.idxOf name

/-- the row `arrayFirst` projects for the requested name -/
def typeRowByName (names : List String) (name : String) (n : Node) : Row := typeRow (firstIdx names name) n

end Qryn.Prof
