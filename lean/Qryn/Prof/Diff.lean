import Qryn.Prof.Tree
/-! # The DIFF view of two profile trees: `synchronizeNames`, `mergeNodes`, `computeFlameGraphDiff`

Core-only executable model of reader/service/profTree.go (the part `ProfService.RenderDiff` runs after the two
`getTree` calls) and of the name table `MergeTrie` builds (with its cap).

* a tree is the flat list of `Row` entries `mergeTrie` produces (`children T p` = `t.Nodes[p]`);
* `mergeNodes`: for every parent id of either tree both children slices are sorted by node id
  (`sortAsc`) and aligned by `mergeChildren`, which pads the side that lacks a node id with an empty
  node (`createEmptyNode`: same ids, zero weights). `alignedKids T1 T2 p` is the list of (left, right)
  pairs — `t1.Nodes[p]` is its first projection, `t2.Nodes[p]` its second;
* `computeFlameGraphDiff`: the FIFO work list (`diffLoop`: pop the head, append the children — a
  breadth-first walk), the name interning (`internNames`), the per-level `Values` and their delta encoding
  (`encodeLevel`);
* the name table: `NameTab` = `NamesMap` composed with `Names` (function id → name, first entry wins);
  `mergeNameTab` = the first loop of `MergeTrie` with `len(t.NamesMap) < cap`; `syncNames` = what
  `synchronizeNames` leaves in the LEFT tree (the only table `computeFlameGraphDiff` reads).

`int64` is `Int` here; the 64-bit reading is in `Qryn/Prof/Wrap64.lean`. -/
namespace Qryn.Prof

/-! ## name tables -/

/-- `NamesMap` ∘ `Names`: function id → name, in insertion order; ids are unique (an id is added only when
    absent). The two fixed entries `Names[0] = "total"`, `Names[1] = "n/a"` carry no id. -/
abbrev NameTab := List (Nat × String)

def NameTab.has (nt : NameTab) (f : Nat) : Bool := nt.any (fun p => p.1 == f)

/-- `MergeTrie`'s loop over `functions`: `if len(t.NamesMap) < cap { if !exists { append } }` -/
def mergeNameTab (cap : Nat) (nt : NameTab) (fns : List (Nat × String)) : NameTab :=
  fns.foldl (fun nt f => if nt.length < cap then (if NameTab.has nt f.1 then nt else nt ++ [f]) else nt) nt

/-- `t.Names[t.NamesMap[id]]`: an unknown id reads index 0, the entry "total" -/
def nameOf (nt : NameTab) (f : Nat) : String :=
  match nt.find? (fun p => p.1 == f) with
  | some p => p.2
  | none => "total"

/-- `t.NamesMap[id]` as an index into `Names` (0 when absent): position + 2 -/
def nameIndex (nt : NameTab) (f : Nat) : Nat :=
  match nt.findIdx? (fun p => p.1 == f) with
  | some i => i + 2
  | none => 0

/-- the entries `synchronizeNames` adds to the left tree: those of the right tree whose id the left lacks
    (Go iterates a map here: the order is arbitrary — `syncNamesWith` takes any arrangement) -/
def missingNames (t1 t2 : NameTab) : NameTab := t2.filter (fun p => !(NameTab.has t1 p.1))

/-- the left tree's table after `synchronizeNames`, the missing entries added in the order `add` -/
def syncNamesWith (t1 add : NameTab) : NameTab := add.foldl (fun nt p => if NameTab.has nt p.1 then nt else nt ++ [p]) t1

def syncNames (t1 t2 : NameTab) : NameTab := syncNamesWith t1 (missingNames t1 t2)

/-! ## `mergeNodes` -/

def insertAsc (a : Row) : List Row → List Row
  | [] => [a]
  | b :: l => if a.node ≤ b.node then a :: b :: l else b :: insertAsc a l

/-- `sort.Slice(children, func(i, j) bool { return children[i].NodeID < children[j].NodeID })`; the node ids of
    one children slice are distinct (keys of `MergeTrie`), so every sorting algorithm gives this list -/
def sortAsc (l : List Row) : List Row := l.foldr insertAsc []

/-- `createEmptyNode`: same function and node id, zero weights -/
def emptyOf (r : Row) : Row := { r with self := 0, total := 0 }

/-- `mergeChildren` (two-pointer merge of the sorted slices; `fuel` ≥ the two lengths together).
    The two result slices have the same length by construction: they are returned as a list of pairs. -/
def mergeChildrenF : Nat → List Row → List Row → List (Row × Row)
  | 0, _, _ => []
  | _ + 1, [], [] => []
  | n + 1, a :: as, [] => (a, emptyOf a) :: mergeChildrenF n as []
  | n + 1, [], b :: bs => (emptyOf b, b) :: mergeChildrenF n [] bs
  | n + 1, a :: as, b :: bs =>
    if a.node = b.node then (a, b) :: mergeChildrenF n as bs
    else if a.node < b.node then (a, emptyOf a) :: mergeChildrenF n as (b :: bs)
    else (emptyOf b, b) :: mergeChildrenF n (a :: as) bs

def mergeChildren (as bs : List Row) : List (Row × Row) := mergeChildrenF (as.length + bs.length) as bs

/-- `t1.Nodes[p]` and `t2.Nodes[p]` after `mergeNodes(t1, t2)`, position by position -/
def alignedKids (T1 T2 : List Row) (p : Nat) : List (Row × Row) :=
  mergeChildren (sortAsc (children T1 p)) (sortAsc (children T2 p))

def kidsL (T1 T2 : List Row) (p : Nat) : List Row := (alignedKids T1 T2 p).map (·.1)
def kidsR (T1 T2 : List Row) (p : Nat) : List Row := (alignedKids T1 T2 p).map (·.2)

/-! ## `computeFlameGraphDiff` -/

/-- an entry of the parallel work lists `leftNodes`/`rightNodes`/`xLeftOffsets`/`xRightOffsets`/`levels` -/
structure QItem where
  left : Row
  right : Row
  xl : Int
  xr : Int
  level : Nat
deriving Repr, DecidableEq

/-- `&TreeNodeV2{Self: []int64{0}, Total: []int64{0}}`: the right partner when the right slice is shorter -/
def padNode : Row := ⟨0, 0, 0, 0, 0⟩

/-- `childRight = childrenRight[i]` if `i < len(childrenRight)` else the pad node: the left slice decides the length -/
def pairKids : List Row → List Row → List (Row × Row)
  | [], _ => []
  | c :: cl, [] => (c, padNode) :: pairKids cl []
  | c :: cl, r :: cr => (c, r) :: pairKids cl cr

/-- the loop `for i := len(childrenLeft)-1; i >= 0; i--` (argument: the pairs LAST FIRST): every child is queued with
    the running offsets, which then advance by the child's totals -/
def pushKids (level : Nat) : List (Row × Row) → Int → Int → List QItem
  | [], _, _ => []
  | (l, r) :: rest, xl, xr => ⟨l, r, xl, xr, level + 1⟩ :: pushKids level rest (xl + l.total) (xr + r.total)

/-- what one iteration appends to the work lists. `t1.Nodes[left.NodeID]` and — quirk kept — `t2.Nodes[right.NodeID]`
    (the right node's own id; equal to the left one on aligned trees) -/
def kidItems (kL kR : Nat → List Row) (q : QItem) : List QItem :=
  pushKids q.level (pairKids (kL q.left.node) (kR q.right.node)).reverse q.xl q.xr

/-- the main loop: pop the head, emit it, append its children at the END (so the walk is breadth first).
    Result: the items in the order they are emitted. `fuel` bounds the iterations (the Go loop has no bound
    and no `reviewed` set: on a cyclic id structure it would not end; `diffLoop_fuel` shows the bound is not
    reached on tree-shaped input). -/
def diffLoop (kL kR : Nat → List Row) : Nat → List QItem → List QItem
  | 0, _ => []
  | _ + 1, [] => []
  | fuel + 1, q :: rest => q :: diffLoop kL kR fuel (rest ++ kidItems kL kR q)

/-- the name of a bar: `"total"` for function id 0, else the LEFT tree's name of the left node's function -/
def itemName (nt : NameTab) (q : QItem) : String := if q.left.fn = 0 then "total" else nameOf nt q.left.fn

/-- `nameLocationCache` / `res.Names`: a name gets the next index at its first use -/
def internNames : List String → List String → List String × List Nat
  | names, [] => (names, [])
  | names, n :: rest =>
    match names.idxOf? n with
    | some i => let r := internNames names rest; (r.1, i :: r.2)
    | none => let r := internNames (names ++ [n]) rest; (r.1, names.length :: r.2)

/-- a bar before the delta encoding: absolute offsets -/
structure Bar where
  xl : Int
  lt : Int
  ls : Int
  xr : Int
  rt : Int
  rs : Int
  name : Nat
deriving Repr, DecidableEq

def barOf (q : QItem) (name : Nat) : Bar := ⟨q.xl, q.left.total, q.left.self, q.xr, q.right.total, q.right.self, name⟩

/-- the final loop over `res.Levels[i].Values` in steps of 7: offsets become relative to the end of the previous
    bar of the level (`Values[j] -= prev0; prev0 += Values[j] + Values[j+1]`, same for j+3/j+4) -/
def encodeLevel : Int → Int → List Bar → List Int
  | _, _, [] => []
  | p0, p3, b :: rest =>
    let v0 := b.xl - p0
    let v3 := b.xr - p3
    [v0, b.lt, b.ls, v3, b.rt, b.rs, (b.name : Int)] ++ encodeLevel (p0 + v0 + b.lt) (p3 + v3 + b.rt) rest

/-- what a flame-graph client reconstructs from a level of the "double" format: absolute (left lo, left hi,
    right lo, right hi) per bar -/
def decodeLevel : Int → Int → List Int → List (Int × Int × Int × Int)
  | p0, p3, v0 :: lt :: _ :: v3 :: rt :: _ :: _ :: rest =>
    (p0 + v0, p0 + v0 + lt, p3 + v3, p3 + v3 + rt) :: decodeLevel (p0 + v0 + lt) (p3 + v3 + rt) rest
  | _, _, _ => []

structure DiffOut where
  names : List String
  levels : List (List Int)
  total : Int
  leftTicks : Int
  rightTicks : Int
  maxSelf : Int
deriving Repr, DecidableEq

def maxSelfItems (items : List QItem) : Int :=
  items.foldl (fun m q => let m := if m < q.left.self then q.left.self else m
                          if m < q.right.self then q.right.self else m) 0

/-- `t.Total()[0]` of a tree whose root children are `cs` -/
def ticks (cs : List Row) : Int := sumTotals cs

def rootItem (l r : Int) : QItem := ⟨⟨0, 0, 0, 0, l⟩, ⟨0, 0, 0, 0, r⟩, 0, 0, 0⟩

/-- `computeFlameGraphDiff(t1, t2)` on trees given by their `Nodes` lookups and the left name table -/
def computeDiff (fuel : Nat) (kL kR : Nat → List Row) (nt : NameTab) : DiffOut :=
  let l := ticks (kL 0)
  let r := ticks (kR 0)
  let items := diffLoop kL kR fuel [rootItem l r]
  let (names, idx) := internNames [] (items.map (itemName nt))
  let bars := (items.zip idx).map (fun qi => (qi.1.level, barOf qi.1 qi.2))
  let nlev := (items.map (·.level)).foldl max 0 + 1
  let levels := (List.range nlev).map (fun k => encodeLevel 0 0 ((bars.filter (fun b => b.1 == k)).map (·.2)))
  ⟨names, if items.isEmpty then [] else levels, l + r, l, r, maxSelfItems items⟩

/-- `assertPositive`: every `Self` value of the tree is ≥ 0 (totals are not looked at) -/
def assertPositive (T : List Row) : Bool := T.all (fun r => decide (0 ≤ r.self))

/-- the part of `RenderDiff` after the two `getTree` calls: `none` = "left/right tree is not positive" -/
def renderDiff (T1 T2 : List Row) (n1 n2 : NameTab) : Option DiffOut :=
  if !(assertPositive T1) || !(assertPositive T2) then none
  else some (computeDiff (T1.length + T2.length + 2) (kidsL T1 T2) (kidsR T1 T2) (syncNames n1 n2))

end Qryn.Prof
