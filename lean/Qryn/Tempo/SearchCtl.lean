/-! Model of how `parseTraceSearchParams` (reader/controller/tempoController.go) turns the `start` / `end` parameters of
    `GET /api/search` into the nanosecond ends `TempoService.Search` is given — after `fix: /api/search refuses a start / end that is
    negative or whose nanoseconds leave int64`: `strconv.Atoi`, then refused unless `0 ≤ s ≤ math.MaxInt64 / 10⁹`; `0` (also: absent)
    is the default (now − 6 h resp. now); otherwise `time.Unix(s, 0).UnixNano()` = `s · 10⁹`, which fits. Core-only. -/
namespace Qryn.Tempo

inductive CtlEnd
  | refused            -- 400, nothing is sent to the database
  | default_           -- the clock: now − 6 h (start), now (end)
  | ns (n : Int)
deriving DecidableEq, Repr

/-- `math.MaxInt64 / int64(time.Second)` -/
def maxSec : Int := 9223372036

def ctlSecond (s : Int) : CtlEnd :=
  if s < 0 ∨ s > maxSec then .refused else if s = 0 then .default_ else .ns (s * 1000000000)

end Qryn.Tempo
