import Qryn.Base.Bytes
/-! The database VERSION STATE the reader consults: model of reader/utils/dbVersion/version.go.

    `GetVersionInfo` reads the `type='update'` rows of the settings table (name, value = Unix seconds of the moment the
    update was installed, as text) and the table list; `IsVersionSupported(ver, fromNS, toNS)` decides whether a
    feature may be used for a request window: the row exists AND the window starts at or after that moment.
    The per-process cache of `GetVersionInfo` (10 s) only delays a new state; every state is quantified over. -/
namespace Qryn.Tempo

/-- `dbVersion.VersionInfo` = `map[string]int64`: feature name → Unix second; an association list read with
    `lookup` (a later write for the same key is put in front) -/
abbrev VersionInfo := List (Bytes × Int)

def isDigit (c : UInt8) : Bool := 48 ≤ c && c ≤ 57

/-- `strconv.ParseInt(s, 10, 64)`: optional sign, decimal digits only, range of int64; `none` = error -/
def parseInt64 (s : Bytes) : Option Int :=
  let (neg, ds) : Bool × Bytes := match s with
    | 43 :: r => (false, r)
    | 45 :: r => (true, r)
    | _ => (false, s)
  if ds.isEmpty || !ds.all isDigit then none else
  let n : Nat := ds.foldl (fun a c => a * 10 + (c.toNat - 48)) 0
  if neg then (if n ≤ 9223372036854775808 then some (-(n : Int)) else none)
  else (if n < 9223372036854775808 then some (n : Int) else none)

def asciiB (s : String) : Bytes := s.toUTF8.toList

/-- one row of the settings query: `_versions[ver] = _time` when the value parses -/
def verStep (m : VersionInfo) (r : Bytes × Bytes) : VersionInfo :=
  match parseInt64 r.2 with
  | some t => (r.1, t) :: m
  | none => m

/-- `GetVersionInfo`: the rows of
    `SELECT argMax(name, inserted_at) as _name, argMax(value, inserted_at) as _value FROM settings[_dist] WHERE type='update' …`
    in result order (a value that does not parse is skipped, a later row of the same name wins) and the names of
    `SHOW TABLES` (without a `metrics_15s[_dist]` table the feature `v5` is supported since ever) -/
def versionInfo (rows : List (Bytes × Bytes)) (tables : List Bytes) : VersionInfo :=
  let m : VersionInfo := rows.foldl verStep []
  if tables.any (fun t => t == asciiB "metrics_15s" || t == asciiB "metrics_15s_dist") then m else (asciiB "v5", 0) :: m

/-- the value of the LAST row of that name whose value parses (what the map holds for the name) -/
def lastParsed (name : Bytes) : List (Bytes × Bytes) → Option Int
  | [] => none
  | r :: rs =>
    match lastParsed name rs with
    | some t => some t
    | none => if name == r.1 then parseInt64 r.2 else none

/-- int64 arithmetic wraps -/
def wrap64 (x : Int) : Int := Int.bmod x 18446744073709551616

/-- `VersionInfo.IsVersionSupported(ver, fromNS, toNS)`: `ok && fromNS >= time * 1000000000` (`toNS` is not looked at) -/
def isVersionSupported (v : VersionInfo) (ver : Bytes) (fromNs : Int) : Bool :=
  match v.lookup ver with
  | some t => decide (wrap64 (t * 1000000000) ≤ fromNs)
  | none => false

end Qryn.Tempo
