import Qryn.Tempo.Search
import Qryn.Sql.Sem
import Qryn.Read.Confine
/-! Meaning of the legacy Tempo search statement (`Tempo.SearchStmt`) over a span table and its attribute index,
    in terms of the shared row-level semantics `Sql.evalE` — the ClickHouse behaviour relied on, in executable form:

    * a column alias of the SELECT list may be used in WHERE (`timestamp_ns as start_time_unix_nano`,
      `… WHERE start_time_unix_nano > …`): conditions are evaluated on the row extended with its alias columns;
    * `date >= toDate('2024-05-01')` compares calendar days (ISO dates: byte order);
    * `(trace_id, span_id) IN (sub-select)` tests membership of the pair in the first two columns of the sub-select;
    * `a INNER ANY JOIN b ON …` on (trace_id, span_id) keeps the rows of `a` that have a partner in `b`;
    * ORDER BY is a stable sort, LIMIT a prefix.

    The driver runs these definitions on the statement the REAL code built (parsed back from its text) over generated
    databases; `Props/C13` proves of every plan of the model that what they return lies in the window. -/
namespace Qryn.Tempo
open Qryn Qryn.Sql Qryn.Confine

/-- rows of `tempo_traces[_dist]` (trace_id, span_id, service_name, name, timestamp_ns, duration_ns, …) and of
    `tempo_traces_attrs_gin` (date, key, val, trace_id, span_id, timestamp_ns, duration) -/
structure SearchDb where
  spans : Table
  attrs : Table

/-- `x >= toDate('d')`: the day as its ISO text -/
def normDate : Expr → Expr
  | .logical fn [l, .call "toDate" [.str d]] =>
    if fn = "and" ∨ fn = "or" then .logical fn [l, .call "toDate" [.str d]] else .logical fn [l, .str d]
  | e => e

def condHolds (o : Oracles) (r : Row) (e : Expr) : Bool := evalB o [] r (normDate e)

def selCols : Sel → List Expr
  | .mk _ _ c _ _ _ _ _ _ _ _ => c
def selWhere : Sel → Option Expr
  | .mk _ _ _ _ _ _ w _ _ _ _ => w

/-- the rows one per-tag sub-select yields -/
def evalTagSel (o : Oracles) (attrs : Table) (s : Sel) : Table :=
  (attrs.filter (fun r => (conjuncts (selWhere s)).all (condHolds o r))).map (project o [] (selCols s))

/-- the first two values of a row -/
def pair2 : Row → Val × Val
  | (_, a) :: (_, b) :: _ => (a, b)
  | _ => (.null, .null)

/-- `SQLIndexQuery`: the rows of the first sub-select that have a partner (same trace_id, span_id) in every other one,
    newest first and cut when the request says so; a request without FROM yields nothing -/
def evalIdx (o : Oracles) (attrs : Table) (q : IdxQuery) : Table :=
  match q.subs with
  | [] => []
  | s0 :: rest =>
    let rows0 := (evalTagSel o attrs s0).map (qualify "subsel_0")
    let joined := rows0.filter (fun r =>
      rest.all (fun s => (evalTagSel o attrs s).any (fun r' =>
        r'.get "trace_id" == r.get "trace_id" && r'.get "span_id" == r.get "span_id")))
    let ordered := if q.orderBy.isEmpty then joined else sortBy (rowLe (orderKeys q.orderBy)) joined
    let cut := match q.limit with
      | some (.int n) => ordered.take n.toNat
      | _ => ordered
    cut.map (project o [] q.cols)

/-- the row WHERE sees: the table's columns, then the aliases of the SELECT list -/
def aliasList (cols : List Expr) : List (String × Expr) :=
  cols.filterMap (fun c => match c with
    | .col e a => some (a, e)
    | _ => none)

def aliasRow (o : Oracles) (cols : List Expr) (r : Row) : Row :=
  r ++ (aliasList cols).map (fun p => (p.1, evalE o [] r p.2))

def scondHolds (o : Oracles) (db : SearchDb) (r : Row) : SCond → Bool
  | .plain e => condHolds o r e
  | .inIdx (.raw l) q =>
    l == "(trace_id, span_id)" &&
      (evalIdx o db.attrs q).any (fun i => pair2 i == (r.get "trace_id", r.get "span_id"))
  | .inIdx _ _ => false

/-- `ORDER BY <col> DESC` written as one raw object -/
def rawOrderKeys : List Expr → List (String × Dir)
  | [] => []
  | .raw s :: es =>
    (if s.endsWith " DESC" then [((s.dropEnd 5).toString, Dir.desc)]
     else if s.endsWith " ASC" then [((s.dropEnd 4).toString, Dir.asc)] else [(s, Dir.asc)]) ++ rawOrderKeys es
  | .orderBy (.raw k) d :: es => (k, d) :: rawOrderKeys es
  | _ :: es => rawOrderKeys es

/-- the span rows (with their alias columns) the statement returns, in the order it returns them -/
def searchRows (o : Oracles) (db : SearchDb) (st : SearchStmt) : Table :=
  let kept := (db.spans.map (aliasRow o st.cols)).filter (fun r => st.conds.all (scondHolds o db r))
  let ordered := if st.orderBy.isEmpty then kept else sortBy (rowLe (rawOrderKeys st.orderBy)) kept
  match st.limit with
  | some (.int n) => ordered.take n.toNat
  | _ => ordered

end Qryn.Tempo
