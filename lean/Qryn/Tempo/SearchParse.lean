import Qryn.Tempo.Search
import Qryn.Sql.Lex
/-! Reading the text of a legacy Tempo search statement back into a `Tempo.SearchStmt` (driver only; no theorem is
    about this file). `SQLIndexQuery` assembles its SELECTs inside `String()`, so the reflection dump of the real
    statement does not show them; the statement the REAL code sent is therefore lexed with the ClickHouse lexer model
    (`Sql/Lex`, the one C10 is about) and parsed by the small recursive-descent reader below. The driver accepts the
    result only if `SearchStmt.render` reproduces the text byte for byte — a mis-read cannot go unnoticed — and then
    runs `searchConfined` and `searchRows` on it. -/
namespace Qryn.Tempo.Parse
open Qryn Qryn.Sql Qryn.Lex Qryn.Tempo

abbrev P (α : Type) := List Tok → Option (α × List Tok)

def txt (w : Bytes) : String := (String.fromUTF8? (ByteArray.mk w.toArray)).getD ""

def kw (s : String) : P Unit
  | .word w :: rest => if txt w = s then some ((), rest) else none
  | _ => none
def punct (c : UInt8) : P Unit
  | .punct p :: rest => if p = c then some ((), rest) else none
  | _ => none
def word : P String
  | .word w :: rest => some (txt w, rest)
  | _ => none

def isNum (s : String) : Bool := !s.isEmpty && s.toList.all Char.isDigit

mutual
/-- identifier / number / string / call -/
def primary : Nat → P Expr
  | 0, _ => none
  | fuel + 1, toks =>
    match toks with
    | .word w :: .punct 40 :: rest => do
      let (as, rest') ← args fuel rest
      some (.call (txt w) as, rest')
    | .word w :: rest => some ((if isNum (txt w) then .int (txt w).toInt! else .raw (txt w)), rest)
    | .punct 45 :: .word w :: rest => if isNum (txt w) then some (.int (-(txt w).toInt!), rest) else none
    | .str s :: rest => some (.str s, rest)
    | _ => none
def args : Nat → P (List Expr)
  | 0, _ => none
  | fuel + 1, toks =>
    match toks with
    | .punct 41 :: rest => some ([], rest)
    | _ => do
      let (e, rest) ← primary fuel toks
      match rest with
      | .punct 44 :: rest' => do
        let (es, rest'') ← args fuel rest'
        some (e :: es, rest'')
      | .punct 41 :: rest' => some ([e], rest')
      | _ => none
end

/-- `expr [as alias]` -/
def col (fuel : Nat) : P Expr := fun toks => do
  let (e, rest) ← primary fuel toks
  match rest with
  | .word a :: .word al :: rest' => if txt a = "as" then some (.col e (txt al), rest') else some (e, rest)
  | _ => some (e, rest)

def cols : Nat → P (List Expr)
  | 0, _ => none
  | fuel + 1, toks => do
    let (c, rest) ← col (fuel + 1) toks
    match rest with
    | .punct 44 :: rest' => do
      let (cs, rest'') ← cols fuel rest'
      some (c :: cs, rest'')
    | _ => some ([c], rest)

def cmpOp : P String
  | .punct 61 :: .punct 61 :: rest => some ("==", rest)
  | .punct 33 :: .punct 61 :: rest => some ("!=", rest)
  | .punct 62 :: .punct 61 :: rest => some (">=", rest)
  | .punct 60 :: .punct 61 :: rest => some ("<=", rest)
  | .punct 62 :: rest => some (">", rest)
  | .punct 60 :: rest => some ("<", rest)
  | _ => none

/-- `(lhs) op (rhs)` -/
def leaf (fuel : Nat) : P Expr := fun toks => do
  let (_, r) ← punct 40 toks
  let (l, r) ← primary fuel r
  let (_, r) ← punct 41 r
  let (op, r) ← cmpOp r
  let (_, r) ← punct 40 r
  let (x, r) ← primary fuel r
  let (_, r) ← punct 41 r
  some (.logical op [l, x], r)

/-- `(c₀) and (c₁) …` of leaves -/
def leaves : Nat → P (List Expr)
  | 0, _ => none
  | fuel + 1, toks => do
    let (_, r) ← punct 40 toks
    let (c, r) ← leaf (fuel + 1) r
    let (_, r) ← punct 41 r
    match kw "and" r with
    | some (_, r') => do
      let (cs, r'') ← leaves fuel r'
      some (c :: cs, r'')
    | none => some ([c], r)

/-- a table name: bare, or `` `db`.name `` -/
def tableName : P String
  | .quoted 96 q :: .word w :: rest => some ("`" ++ txt q ++ "`" ++ txt w, rest)
  | .word w :: rest => some (txt w, rest)
  | _ => none

/-- one per-tag sub-select -/
def sub (fuel : Nat) : P Sel := fun toks => do
  let (_, r) ← kw "SELECT" toks
  let (cs, r) ← cols fuel r
  let (_, r) ← kw "FROM" r
  let (t, r) ← tableName r
  let (w, r) ← (match kw "WHERE" r with
    | some (_, r') => do
      let (ls, r'') ← leaves fuel r'
      some (some (and_ ls), r'')
    | none => some (none, r))
  some (.mk [] false cs (some (.raw t)) [] none w [] none [] none, r)

/-- `(sub) as subsel_i` -/
def subAs (fuel : Nat) (i : Nat) : P Sel := fun toks => do
  let (_, r) ← punct 40 toks
  let (s, r) ← sub fuel r
  let (_, r) ← punct 41 r
  let (_, r) ← kw "as" r
  let (a, r) ← word r
  if a = subAlias i then some (s, r) else none

def joins : Nat → Nat → P (List Sel)
  | 0, _, _ => none
  | fuel + 1, i, toks =>
    match kw "INNER" toks with
    | none => some ([], toks)
    | some (_, r) => do
      let (_, r) ← kw "ANY" r
      let (_, r) ← kw "JOIN" r
      let (s, r) ← subAs (fuel + 1) i r
      let (_, r) ← kw "ON" r
      let (_, r) ← leaves (fuel + 1) r       -- re-rendered as `joinOn i`: a different ON fails the round trip
      let (ss, r) ← joins fuel (i + 1) r
      some (s :: ss, r)

/-- `ORDER BY e desc|asc` (an OrderBy object) or `ORDER BY name DESC` (one raw object) -/
def orderBy (fuel : Nat) : P (List Expr) := fun toks =>
  match kw "ORDER" toks with
  | none => some ([], toks)
  | some (_, r) => do
    let (_, r) ← kw "BY" r
    let (e, r) ← primary fuel r
    match r with
    | .word d :: r' =>
      if txt d = "desc" then some ([.orderBy e .desc], r')
      else if txt d = "asc" then some ([.orderBy e .asc], r')
      else if txt d = "DESC" ∨ txt d = "ASC" then
        (match e with | .raw n => some ([.raw (n ++ " " ++ txt d)], r') | _ => none)
      else some ([e], r)
    | _ => some ([e], r)

def limit (fuel : Nat) : P (Option Expr) := fun toks =>
  match kw "LIMIT" toks with
  | none => some (none, toks)
  | some (_, r) => do
    let (e, r) ← primary fuel r
    some (some e, r)

def idx (fuel : Nat) : P IdxQuery := fun toks => do
  let (_, r) ← kw "SELECT" toks
  let (cs, r) ← cols fuel r
  let (ss, r) ← (match kw "FROM" r with
    | none => some ([], r)
    | some (_, r') => do
      let (s0, r'') ← subAs fuel 0 r'
      let (rest, r''') ← joins fuel 1 r''
      some (s0 :: rest, r'''))
  let (ob, r) ← orderBy fuel r
  let (l, r) ← limit fuel r
  some (⟨cs, ss, ob, l⟩, r)

/-- one conjunct of the span read -/
def scond (fuel : Nat) : P SCond := fun toks =>
  match toks with
  | .punct 40 :: .word a :: .punct 44 :: .word c :: .punct 41 :: .word i :: .punct 40 :: r =>
    if txt i = "IN" then do
      let (q, r) ← idx fuel r
      let (_, r) ← punct 41 r
      some (.inIdx (.raw ("(" ++ txt a ++ ", " ++ txt c ++ ")")) q, r)
    else none
  | _ => do
    let (e, r) ← leaf fuel toks
    some (.plain e, r)

def sconds : Nat → P (List SCond)
  | 0, _ => none
  | fuel + 1, toks => do
    let (_, r) ← punct 40 toks
    let (c, r) ← scond (fuel + 1) r
    let (_, r) ← punct 41 r
    match kw "and" r with
    | some (_, r') => do
      let (cs, r'') ← sconds fuel r'
      some (c :: cs, r'')
    | none => some ([c], r)

def stmt (fuel : Nat) : P SearchStmt := fun toks => do
  let (_, r) ← kw "SELECT" toks
  let (cs, r) ← cols fuel r
  let (_, r) ← kw "FROM" r
  let (t, r) ← tableName r
  let (conds, r) ← (match kw "WHERE" r with
    | some (_, r') => sconds fuel r'
    | none => some ([], r))
  let (ob, r) ← orderBy fuel r
  let (l, r) ← limit fuel r
  some (⟨cs, t, conds, ob, l⟩, r)

/-- the statement a text denotes — accepted only when rendering it gives the text back -/
def parseSearch (text : Bytes) : Option SearchStmt :=
  let toks := lex text
  match stmt (toks.length + 1) toks with
  | some (st, []) => if st.render == text then some st else none
  | _ => none

end Qryn.Tempo.Parse
