import Qryn.Sql.Build
/-! The other statements of reader/service/tempoService.go, as `Sql.Sel` terms:

    * `GetQueryRequest` — trace by id (`GET /api/traces/{traceId}?start=&end=`): the span table read by `trace_id`, with
      `timestamp_ns >= start` / `< end` for each end that was given (the controller passes seconds · 10⁹, 0 = absent);
    * `GetTagsRequest`, `GetValuesRequest` — `GET /api/search/tags`, `/api/search/tag/{tag}/values`: the key/value table
      without any time restriction; these two endpoints have no window parameter (the windowed forms are the V2 endpoints,
      `TraceQL.planTags` / `planValues`).
    Tied byte for byte to `TempoService.Query / Tags / Values` by the `model-tempo-legacy` stream of C13. -/
namespace Qryn.Tempo
open Qryn Qryn.Sql

structure QueryReq where
  startNs : Int
  endNs : Int
  traceId : Bytes
  cluster : Bool
  /-- `tables.GetTableName("tempo_traces")`, `("tempo_traces_dist")` -/
  tracesTable : String
  tracesDistTable : String

def traceCols : List Expr :=
  [.raw "trace_id", .raw "span_id", .raw "parent_id", .raw "timestamp_ns", .raw "duration_ns", .raw "payload_type", .raw "payload"]

/-- the conjuncts of the inner select: `trace_id = unhex('<id>')`, then a bound for each end that is not 0 -/
def queryConds (q : QueryReq) : List Expr :=
  [eq (.raw "trace_id") (.call "unhex" [.str q.traceId])] ++
  (if q.startNs != 0 then [ge (.raw "timestamp_ns") (.int q.startNs)] else []) ++
  (if q.endNs != 0 then [lt (.raw "timestamp_ns") (.int q.endNs)] else [])

/-- the inner select `raw` of `GetQueryRequest` -/
def queryInner (q : QueryReq) : Sel :=
  .mk [] false traceCols (some (.raw (if q.cluster then q.tracesDistTable else q.tracesTable))) [] none
    (some (and_ (queryConds q))) [] none [.raw "timestamp_ns"] (some (.int 2000))

/-- `TempoService.GetQueryRequest` -/
def queryRequest (q : QueryReq) : Sel :=
  .mk [(.named "raw", queryInner q)] false traceCols (some (.withRef (.named "raw"))) [] none none [] none
    [.orderBy (.raw "timestamp_ns") .asc] none

/-- `TempoService.GetTagsRequest` (`kv` = `tempo_traces_kv` or `tempo_traces_kv_dist`) -/
def tagsRequest (kv : String) : Sel :=
  .mk [] true [.raw "key"] (some (.raw kv)) [] none none [] none [.raw "key"] none

/-- `TempoService.GetValuesRequest` (the tag after `Values` stripped `span.` / `.` / `resource.`) -/
def valuesRequest (kv : String) (tag : Bytes) : Sel :=
  .mk [] true [.raw "val"] (some (.raw kv)) [] none (some (and_ [eq (.raw "key") (.str tag)])) [] none [.raw "val"] none

/-- the prefixes `TempoService.Values` strips from the tag name, in its order: `span.`, then `.`, then `resource.` (only of
    a name of at least 10 bytes) -/
def valuesTag (tag : Bytes) : Bytes :=
  let t := if (b "span.").isPrefixOf tag then tag.drop 5 else tag
  let t := if (b ".").isPrefixOf t then t.drop 1 else t
  if t.length ≥ 10 && (b "resource.").isPrefixOf t then t.drop 9 else t

end Qryn.Tempo
