import Qryn.Sql.Build
import Qryn.Base.Time
import Qryn.Tempo.Version
/-! The statement of the legacy Tempo search (`GET /api/search?tags=…`): model of

    * reader/service/tempoService.go `TempoService.Search` (which index request is built, with which version state),
    * reader/tempo/tracesQuery.go `GetTracesQuery` (the read of `tempo_traces[_dist]`),
    * reader/tempo/sqlIndexQuery.go `SQLIndexQuery.String` (one sub-select over `tempo_traces_attrs_gin` per tag,
      joined INNER ANY on (trace_id, span_id); every time-related part except the `date` range is gated by
      `Ver.IsVersionSupported("tempo_v2", FromNS, ToNS)`).

    Every SELECT is a `Sql.Sel` of the shared AST. `SQLIndexQuery` renders its sub-selects INLINE
    (`FROM (…) as subsel_0 INNER ANY JOIN (…) as subsel_1 ON …`, and the whole request inside `IN (…)`), which the
    shared `Sel` has no place for (its joins name WITH aliases); `IdxQuery` / `SearchStmt` hold the `Sel`s and `render`
    composes their `renderSel` texts the way the two Go `String` methods do. Tied byte for byte to the real
    `TempoService.Search` over the scripted database in every version state (stream `model-tempo` of C13). -/
namespace Qryn.Tempo
open Qryn Qryn.Sql

/-- `opRegistry` keys -/
inductive TagOp | eq | ne | re | nre
deriving DecidableEq, Repr

/-- one tag of the `tags=` parameter after `LiteralOrQString.Parse` (participle grammar of tags.go) -/
structure Tag where
  key : Bytes
  op : TagOp
  val : Bytes
deriving DecidableEq, Repr

structure SearchReq where
  /-- `none`: `tags == ""` — no index request at all (`idx == nil`) -/
  tags : Option (List Tag)
  minDurNs : Int
  maxDurNs : Int
  limit : Int
  fromNs : Int
  toNs : Int
  /-- `conn.Config.ClusterName != ""` -/
  cluster : Bool
  /-- `conn.Config.Name` -/
  dbName : String
  /-- `tables.GetTableName("tempo_traces")`, `("tempo_traces_dist")` -/
  tracesTable : String
  tracesDistTable : String
  /-- `SQLIndexQuery.Distributed` (`Search` passes `false` in both layouts) -/
  idxDist : Bool
deriving Repr

/-- `match(val, '<v>')` (the custom column of `opRegistry["=~"]`) -/
def matchVal (v : Bytes) : Expr := .call "match" [.raw "val", .str v]

/-- `opRegistry[cond](NewStringVal(v))` -/
def tagCond : TagOp → Bytes → Expr
  | .eq, v => eq (.raw "val") (.str v)
  | .ne, v => neq (.raw "val") (.str v)
  | .re, v => eq (matchVal v) (.int 1)
  | .nre, v => neq (matchVal v) (.int 1)

/-- `toDate('<UTC date of the instant>')`: `time.Unix(ns/1e9, ns%1e9).UTC().Format("2006-01-02")`, for `ns > 0` -/
def dateOf (ns : Int) : Expr := .call "toDate" [.str (Time.formatDate (ns / 1000000000))]

def v2name : Bytes := asciiB "tempo_v2"

/-- `` "`" + Database + "`.tempo_traces_attrs_gin" `` (+ `_dist`) -/
def attrsTable (r : SearchReq) : String :=
  "`" ++ r.dbName ++ "`.tempo_traces_attrs_gin" ++ (if r.idxDist then "_dist" else "")

/-- `AndWhere(Eq(key, k), cond(v))` -/
def tagBase (t : Tag) : List Expr := [eq (.raw "key") (.str t.key), tagCond t.op t.val]

/-- `if s.FromNS > 0 { date >= …; if v2 { timestamp_ns >= FromNS } }` -/
def fromPart (r : SearchReq) (v2 : Bool) : List Expr :=
  if r.fromNs > 0 then
    [ge (.raw "date") (dateOf r.fromNs)] ++ (if v2 then [ge (.raw "timestamp_ns") (.int r.fromNs)] else [])
  else []

/-- `if s.ToNS > 0 { date <= …; if v2 { timestamp_ns <= ToNS } }` -/
def toPart (r : SearchReq) (v2 : Bool) : List Expr :=
  if r.toNs > 0 then
    [le (.raw "date") (dateOf r.toNs)] ++ (if v2 then [le (.raw "timestamp_ns") (.int r.toNs)] else [])
  else []

/-- the duration bounds of the index rows (tempo_v2 only) -/
def durPart (r : SearchReq) (v2 : Bool) : List Expr :=
  (if r.minDurNs > 0 && v2 then [ge (.raw "duration") (.int r.minDurNs)] else []) ++
  (if r.maxDurNs > 0 && v2 then [lt (.raw "duration") (.int r.maxDurNs)] else [])

/-- the conjuncts of one `sqlTagRequests[i]`, in the order of the `AndWhere` calls -/
def tagConds (r : SearchReq) (ver : VersionInfo) (t : Tag) : List Expr :=
  let v2 := isVersionSupported ver v2name r.fromNs
  tagBase t ++ fromPart r v2 ++ toPart r v2 ++ durPart r v2

/-- `sqlTagRequests[i]` -/
def tagSel (r : SearchReq) (ver : VersionInfo) (t : Tag) : Sel :=
  let v2 := isVersionSupported ver v2name r.fromNs
  .mk [] false
    ([.raw "trace_id", .raw "span_id"] ++ (if r.limit > 0 && v2 then [.raw "timestamp_ns"] else []))
    (some (.raw (attrsTable r))) [] none (some (and_ (tagConds r ver t))) [] none [] none

/-- the request `SQLIndexQuery.String` assembles: per-tag sub-selects rendered inline -/
structure IdxQuery where
  cols : List Expr
  subs : List Sel
  orderBy : List Expr
  limit : Option Expr

def subAlias (i : Nat) : String := "subsel_" ++ toString i

/-- `ON (subsel_0.trace_id == subsel_i.trace_id) and (subsel_0.span_id == subsel_i.span_id)` -/
def joinOn (i : Nat) : Expr :=
  and_ [eq (.raw "subsel_0.trace_id") (.raw (subAlias i ++ ".trace_id")),
        eq (.raw "subsel_0.span_id") (.raw (subAlias i ++ ".span_id"))]

/-- the joined sub-selects from number `i` on: `NewJoin("INNER ANY", NewCol(getSubSelect(sub), alias), on)` through
    `Join.String` -/
def renderJoinsFrom : Nat → List Sel → Bytes
  | _, [] => []
  | i, s :: ss =>
    b " INNER ANY JOIN (" ++ renderSel s ++ b ") as " ++ b (subAlias i) ++ b " ON " ++ renderExpr (joinOn i) ++
      renderJoinsFrom (i + 1) ss

/-- `request.String(ctx, options...)` of `SQLIndexQuery.String` (no FROM at all for an empty tag list) -/
def IdxQuery.render (q : IdxQuery) : Bytes :=
  b " SELECT " ++ joinB (b ", ") (renderExprs q.cols) ++
  (match q.subs with
   | [] => []
   | s0 :: rest => b " FROM (" ++ renderSel s0 ++ b ") as subsel_0" ++ renderJoinsFrom 1 rest) ++
  (if q.orderBy.isEmpty then [] else b " ORDER BY " ++ joinB (b ", ") (renderExprs q.orderBy)) ++
  (match q.limit with | some l => b " LIMIT " ++ renderExpr l | none => [])

/-- `SQLIndexQuery` as `TempoService.Search` fills it -/
def idxQuery (r : SearchReq) (ver : VersionInfo) (tags : List Tag) : IdxQuery :=
  let v2 := isVersionSupported ver v2name r.fromNs
  { cols := [.raw "subsel_0.trace_id", .raw "subsel_0.span_id"]
    subs := tags.map (tagSel r ver)
    orderBy := if v2 && r.limit > 0 then [.orderBy (.raw "subsel_0.timestamp_ns") .desc] else []
    limit := if v2 && r.limit > 0 then some (.int r.limit) else none }

/-- a conjunct of the span read: the index request, or a plain condition -/
inductive SCond
  | inIdx (lhs : Expr) (q : IdxQuery)
  | plain (e : Expr)

/-- the statement `Search` sends: one read of the span table -/
structure SearchStmt where
  cols : List Expr
  table : String
  conds : List SCond
  orderBy : List Expr
  limit : Option Expr

def SCond.render : SCond → Bytes
  | .inIdx l q => renderExpr l ++ b " IN (" ++ q.render ++ b ")"
  | .plain e => renderExpr e

/-- `Select.String` of the select `GetTracesQuery` returns (`In` / `LogicalOp` / `SQLIndexQuery` render inside) -/
def SearchStmt.render (st : SearchStmt) : Bytes :=
  b " SELECT " ++ joinB (b ", ") (renderExprs st.cols) ++ b " FROM " ++ b st.table ++
  (if st.conds.isEmpty then [] else
    b " WHERE " ++ joinB (b " and ") (st.conds.map (fun c => b "(" ++ c.render ++ b ")"))) ++
  (if st.orderBy.isEmpty then [] else b " ORDER BY " ++ joinB (b ", ") (renderExprs st.orderBy)) ++
  (match st.limit with | some l => b " LIMIT " ++ renderExpr l | none => [])

def SearchStmt.plainConds (st : SearchStmt) : List Expr :=
  st.conds.filterMap (fun c => match c with | .plain e => some e | .inIdx _ _ => none)

def SearchStmt.idxs (st : SearchStmt) : List IdxQuery :=
  st.conds.filterMap (fun c => match c with | .inIdx _ q => some q | .plain _ => none)

/-- the span read without its index conjunct, as a `Sel` (what the shared predicates look at) -/
def SearchStmt.plainSel (st : SearchStmt) : Sel :=
  .mk [] false st.cols (some (.raw st.table)) [] none
    (if st.plainConds.isEmpty then none else some (and_ st.plainConds)) [] none st.orderBy st.limit

/-- the select list of `GetTracesQuery` -/
def searchCols : List Expr :=
  [.call "hex" [.raw "trace_id"], .col (.raw "service_name") "root_service_name", .col (.raw "name") "root_trace_name",
   .col (.raw "timestamp_ns") "start_time_unix_nano",
   .col (.call "intDiv" [.raw "duration_ns", .int 1000000]) "duration_ms"]

/-- the time conjuncts of `GetTracesQuery`: `start_time_unix_nano > fromNS`, `<= toNS`, each under its `> 0` guard -/
def spanTimeConds (r : SearchReq) : List Expr :=
  (if r.fromNs > 0 then [gt (.raw "start_time_unix_nano") (.int r.fromNs)] else []) ++
  (if r.toNs > 0 then [le (.raw "start_time_unix_nano") (.int r.toNs)] else [])

/-- the duration conjuncts (Go's `/` truncates; the operands are positive here) -/
def spanDurConds (r : SearchReq) : List Expr :=
  (if r.minDurNs > 0 then [gt (.raw "duration_ms") (.int (Int.tdiv r.minDurNs 1000000))] else []) ++
  (if r.maxDurNs > 0 then [le (.raw "duration_ms") (.int (Int.tdiv r.maxDurNs 1000000))] else [])

def spanConds (r : SearchReq) : List Expr := spanTimeConds r ++ spanDurConds r

/-- `TempoService.Search` + `GetTracesQuery`: the statement for a request in a version state -/
def planSearch (r : SearchReq) (ver : VersionInfo) : SearchStmt :=
  { cols := searchCols
    table := if r.cluster then r.tracesDistTable else r.tracesTable
    conds := (match r.tags with
              | some tags => [.inIdx (.raw "(trace_id, span_id)") (idxQuery r ver tags)]
              | none => []) ++ (spanConds r).map .plain
    orderBy := [.raw "start_time_unix_nano DESC"]
    limit := if r.limit > 0 then some (.int r.limit) else none }

end Qryn.Tempo

namespace Qryn.Tempo
open Qryn Qryn.Sql

/-- COUNTER-PATTERN (not the code): the span read that keeps its time conjuncts only when there is no index request —
    "the index request is already restricted to the time span of the search" (seeded change C13-4). `Props/C13`
    shows for which version states that is true (`idx_only_confined_iff`) and a database on which it returns a span
    from outside the window (`idx_only_counterexample`). -/
def planSearchIdxOnly (r : SearchReq) (ver : VersionInfo) : SearchStmt :=
  match r.tags with
  | some tags =>
    { planSearch r ver with
      conds := [.inIdx (.raw "(trace_id, span_id)") (idxQuery r ver tags)] ++ (spanDurConds r).map .plain }
  | none => planSearch r ver

end Qryn.Tempo
