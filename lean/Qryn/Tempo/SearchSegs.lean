import Qryn.Sql.SegsOf
import Qryn.Sql.Build
import Qryn.Base.Time
/-! Legacy Tempo search (`GET /api/search?tags=…`): reader/tempo/sqlIndexQuery.go (`SQLIndexQuery.String`, `getSubSelect`,
    `opRegistry`), reader/tempo/tracesQuery.go (`GetTracesQuery`), as segment lists — raw text written by the
    `sql_select` renderers / `fmt.Sprintf`, and string leaves (`sql.NewStringVal`): the tag NAMES and VALUES of the `tags=`
    parameter. The participle parse of `tags=` (reader/tempo/tags.go: name, condition, value; quoted values unquoted
    with `strconv.Unquote`) is the environment: the harness hands over the parsed triples.

    One sub-select per tag on the attribute index, joined pairwise on (trace_id, span_id); dates and numbers are printed
    by the code (`toDate('%s')` of a formatted time, `%d`). `v2` = `Ver.IsVersionSupported("tempo_v2", from, to)`. -/
namespace Qryn.TempoSegs
open Qryn Qryn.Sql

inductive TagOp | eq | neq | re | nre
deriving DecidableEq, Repr

structure Tag where
  name : Bytes
  op : TagOp
  val : Bytes
deriving DecidableEq, Repr

structure Idx where
  table : Bytes            -- "`" + Database + "`.tempo_traces_attrs_gin" [+ "_dist"]
  fromNs : Int
  toNs : Int
  minDur : Int
  maxDur : Int
  limit : Int
  v2 : Bool
deriving Repr

/-- the condition of `opRegistry[tag.Condition]` applied to `NewStringVal(v)`, rendered by `LogicalOp.String` -/
def opSegs (t : Tag) : List Seg :=
  match t.op with
  | .eq => [.raw (b "(val) == ("), .str t.val, .raw (b ")")]
  | .neq => [.raw (b "(val) != ("), .str t.val, .raw (b ")")]
  | .re => [.raw (b "(match(val, "), .str t.val, .raw (b ")) == (1)")]
  | .nre => [.raw (b "(match(val, "), .str t.val, .raw (b ")) != (1)")]

/-- `sql.Ge(NewRawObject(col), NewIntVal(n))` and the like -/
def numClause (col op : String) (n : Int) : List Seg :=
  [.raw (b "(" ++ b col ++ b ") " ++ b op ++ b " (" ++ intText n ++ b ")")]

/-- `sql.Ge(NewRawObject("date"), NewRawObject(fmt.Sprintf("toDate('%s')", t.UTC().Format("2006-01-02"))))` -/
def dateClause (op : String) (unixSec : Int) : List Seg :=
  [.raw (b "(date) " ++ b op ++ b " (toDate('" ++ Time.formatDate unixSec ++ b "'))")]

def sec (ns : Int) : Int := ns / 1000000000

/-- the WHERE clauses of one tag's sub-select, in the order of the `AndWhere` calls -/
def clauses (x : Idx) (t : Tag) : List (List Seg) :=
  [[.raw (b "(key) == ("), .str t.name, .raw (b ")")], opSegs t] ++
  (if x.fromNs > 0 then [dateClause ">=" (sec x.fromNs)] ++ (if x.v2 then [numClause "timestamp_ns" ">=" x.fromNs] else []) else []) ++
  (if x.toNs > 0 then [dateClause "<=" (sec x.toNs)] ++ (if x.v2 then [numClause "timestamp_ns" "<=" x.toNs] else []) else []) ++
  (if x.minDur > 0 ∧ x.v2 then [numClause "duration" ">=" x.minDur] else []) ++
  (if x.maxDur > 0 ∧ x.v2 then [numClause "duration" "<" x.maxDur] else [])

def paren (c : List Seg) : List Seg := [.raw (b "(")] ++ c ++ [.raw (b ")")]

def tagHead (x : Idx) : Bytes :=
  b " SELECT trace_id, span_id" ++ (if x.limit > 0 ∧ x.v2 then b ", timestamp_ns" else []) ++ b " FROM " ++ x.table ++ b " WHERE "

/-- one tag's sub-select -/
def tagSelSegs (x : Idx) (t : Tag) : List Seg :=
  [.raw (tagHead x)] ++ joinS (b " and ") ((clauses x t).map paren)

def subAlias (i : Nat) : Bytes := b "subsel_" ++ natDigits i

/-- `sql.And(Eq(subsel_0.trace_id, subsel_i.trace_id), Eq(subsel_0.span_id, subsel_i.span_id))` -/
def joinOn (i : Nat) : Bytes :=
  b "((subsel_0.trace_id) == (" ++ subAlias i ++ b ".trace_id)) and ((subsel_0.span_id) == (" ++ subAlias i ++ b ".span_id))"

/-- the joins of the tags after the first (index from `i`) -/
def joinsSegs (x : Idx) : Nat → List Tag → List Seg
  | _, [] => []
  | i, t :: rest =>
    [.raw (b " INNER ANY JOIN (")] ++ tagSelSegs x t ++ [.raw (b ") as " ++ subAlias i ++ b " ON " ++ joinOn i)] ++ joinsSegs x (i + 1) rest

def idxTail (x : Idx) : Bytes :=
  if x.v2 ∧ x.limit > 0 then b " ORDER BY subsel_0.timestamp_ns desc LIMIT " ++ intText x.limit else []

/-- **`SQLIndexQuery.String`** for a non-empty tag list -/
def idxSegs (x : Idx) (t0 : Tag) (rest : List Tag) : List Seg :=
  [.raw (b " SELECT subsel_0.trace_id, subsel_0.span_id FROM (")] ++ tagSelSegs x t0 ++ [.raw (b ") as subsel_0")] ++
    joinsSegs x 1 rest ++ [.raw (idxTail x)]

/-! ### `GetTracesQuery` -/
structure Search where
  tracesTable : Bytes      -- tables.GetTableName("tempo_traces"[_dist])
  limit : Int
  fromNs : Int
  toNs : Int
  minDur : Int
  maxDur : Int
deriving Repr

def searchHead (s : Search) : Bytes :=
  b " SELECT hex(trace_id), service_name as root_service_name, name as root_trace_name, timestamp_ns as start_time_unix_nano, " ++
  b "intDiv(duration_ns, 1000000) as duration_ms FROM " ++ s.tracesTable

def searchClauses (s : Search) (idx : Option (List Seg)) : List (List Seg) :=
  (match idx with | some i => [[.raw (b "(trace_id, span_id) IN (")] ++ i ++ [.raw (b ")")]] | none => []) ++
  (if s.fromNs > 0 then [numClause "start_time_unix_nano" ">" s.fromNs] else []) ++
  (if s.toNs > 0 then [numClause "start_time_unix_nano" "<=" s.toNs] else []) ++
  (if s.minDur > 0 then [numClause "duration_ms" ">" (s.minDur / 1000000)] else []) ++
  (if s.maxDur > 0 then [numClause "duration_ms" "<=" (s.maxDur / 1000000)] else [])

def searchTail (s : Search) : Bytes :=
  b " ORDER BY start_time_unix_nano DESC" ++ (if s.limit > 0 then b " LIMIT " ++ intText s.limit else [])

/-- **the statement of `TempoService.Search`**; `idx` = the rendered index query when `tags` is not empty -/
def searchSegs (s : Search) (idx : Option (List Seg)) : List Seg :=
  [.raw (searchHead s)] ++
  (if (searchClauses s idx).isEmpty then [] else [.raw (b " WHERE ")] ++ joinS (b " and ") ((searchClauses s idx).map paren)) ++
  [.raw (searchTail s)]

/-- `idxQuery` of `TempoService.Search`: nil when `tags` is empty -/
def idxOf (x : Idx) : List Tag → Option (List Seg)
  | [] => none
  | t0 :: rest => some (idxSegs x t0 rest)

def idxText (x : Idx) (t0 : Tag) (rest : List Tag) : Bytes := renderSegs (idxSegs x t0 rest)
def searchText (s : Search) (x : Idx) (tags : List Tag) : Bytes :=
  renderSegs (searchSegs s (idxOf x tags))

/-! ### trace by id and tag values (`TempoService.GetQueryRequest`, `GetValuesRequest`): plain `sql_select` trees -/

def traceCols : List Expr :=
  [.raw "trace_id", .raw "span_id", .raw "parent_id", .raw "timestamp_ns", .raw "duration_ns", .raw "payload_type", .raw "payload"]

/-- `GetQueryRequest`: the trace id of the URL goes through `NewStringVal` inside the custom column `unhex(%s)` -/
def traceSel (table : String) (traceId : Bytes) (startNs endNs : Int) : Sel :=
  .mk [(.named "raw",
      .mk [] false traceCols (some (.raw table)) [] none
        (some (and_ ([eq (.raw "trace_id") (.call "unhex" [.str traceId])] ++
          (if startNs = 0 then [] else [ge (.raw "timestamp_ns") (.int startNs)]) ++
          (if endNs = 0 then [] else [lt (.raw "timestamp_ns") (.int endNs)]))))
        [] none [.raw "timestamp_ns"] (some (.int 2000)))]
    false traceCols (some (.withRef (.named "raw"))) [] none none [] none [.orderBy (.raw "timestamp_ns") .asc] none

/-- `GetValuesRequest` (`/api/search/tag/{tag}/values`): the tag of the URL path is a `StringVal` -/
def tagValuesSel (table : String) (tag : Bytes) : Sel :=
  .mk [] true [.raw "val"] (some (.raw table)) [] none (some (and_ [eq (.raw "key") (.str tag)])) [] none [.raw "val"] none

end Qryn.TempoSegs
