import Qryn.Sql.SemG
/-! Whole statements of the TraceQL planner: `Sql.SemG` plus what the outer levels of the statement need —
    a grouped select with an ANY LEFT JOIN whose columns are also visible unqualified, `(a, b) IN (cte)`,
    the aggregates `min`, `groupArray`, and the id rendering `lower(hex(x))` / `arrayMap(x -> lower(hex(x)), arr)`.
    A select that uses none of these is evaluated by `Sql.SemG` itself (`usesJ`), so everything proved about
    `evalSelG` carries over to the sub-queries of a statement. Documented ClickHouse behaviour relied on:
    * a column of the joined table can be named without its table alias when the name is not a column of the left side;
    * `(a, b) IN (sub-query)` compares the tuple with the first two columns of every row of the sub-query;
    * `min(x)`: the least non-NULL value; `groupArray(x)`: all values of the group in row order;
    * `lower(hex(id))` is an injective rendering of an id; the model keeps ids as they are stored, so both
      functions and the `arrayMap` over them are the identity here;
    * ORDER BY may name an output alias; LIMIT takes a prefix of the ordered rows (ties keep their order: the
      sort is stable — which rows a real server keeps among equal keys is not determined, the theorems that
      depend on it say so).
    Trusted base: this is a model of ClickHouse, not ClickHouse. -/
namespace Qryn.Sql

def minInts : List Val → Option Int
  | [] => none
  | .int i :: vs => (match minInts vs with | some m => some (min i m) | none => some i)
  | _ :: vs => minInts vs

/-- Array(Int64) as a value -/
def intArr (vs : List Val) : Val :=
  .tuples (vs.filterMap (fun v => match v with | .int i => some [Atom.int i] | _ => none))

/-- `groupArray(x)` -/
def arrOf (vs : List Val) : Val :=
  match vs with
  | .str _ :: _ => .strs (strsOf vs)
  | _ => intArr vs

def isJcall (fn : String) : Bool :=
  fn == "min" || fn == "groupArray" || fn == "lower" || fn == "hex" || fn == "arrayMap" || fn == "argMin"

/-- an expression of the SELECT list / ORDER BY of a grouped select over the rows of one group -/
def evalGrpJ (o : Oracles) (env : Env) (g : List Row) : Expr → Val
  | .col e _ => evalGrpJ o env g e
  | .call fn [e] =>
    if fn = "min" then (match minInts (g.map (fun r => evalE o env r e)) with | some m => .int m | none => .null)
    else if fn = "groupArray" then arrOf (g.map (fun r => evalE o env r e))
    else if fn = "lower" then evalGrpJ o env g e
    else if fn = "hex" then evalGrpJ o env g e
    else evalGrp o env g (.call fn [e])
  | .call fn [x, e] =>
    if fn = "arrayMap" then evalGrpJ o env g e else evalGrp o env g (.call fn [x, e])
  | e => evalGrp o env g e

/-- the first two columns of the rows of a sub-query -/
def firstTwo (t : Table) : List (Val × Val) :=
  t.filterMap (fun r => match r with | (_, x) :: (_, y) :: _ => some (x, y) | _ => none)

def isTupleIn : Expr → Bool
  | .isIn (.call fn [_, _]) [.withRef _] => fn == ""
  | _ => false

mutual
/-- WHERE: `and` of clauses, a clause may be `(a, b) IN (cte)`; everything else is `evalB` -/
def evalBJ (o : Oracles) (env : Env) (r : Row) : Expr → Bool
  | .logical fn cs => if fn = "and" then evalAllJ o env r cs else evalB o env r (.logical fn cs)
  | .isIn l rs =>
    (match l, rs with
     | .call fn [a, b'], [.withRef w] =>
       if fn = "" then (firstTwo ((env.lookup w).getD [])).contains (evalE o env r a, evalE o env r b')
       else evalB o env r (.isIn l rs)
     | _, _ => evalB o env r (.isIn l rs))
  | e => evalB o env r e
def evalAllJ (o : Oracles) (env : Env) (r : Row) : List Expr → Bool
  | [] => true
  | e :: es => evalBJ o env r e && evalAllJ o env r es
end

def optBJ (o : Oracles) (env : Env) (r : Row) : Option Expr → Bool
  | none => true
  | some e => evalBJ o env r e

/-- ANY LEFT JOIN: the first right row satisfying ON; its columns under the alias and, where the left side has
    no column of that name, also bare -/
def joinOneJ (o : Oracles) (env : Env) (right : Table) (on : Expr) (l : Row) : Row :=
  match right.find? (fun rr => evalB o env (l ++ rr) on) with
  | some rr => l ++ rr
  | none => l

def anyLeftJoinJ (o : Oracles) (env : Env) (left : Table) (a : Alias) (on : Expr) : Table :=
  left.map (joinOneJ o env (((env.lookup a).getD []).map (qualify a.text)) on)

def orderValJ (o : Oracles) (env : Env) (cols : List Expr) (g : List Row) (e : Expr) : Val :=
  match e with
  | .raw n => (match cols.find? (fun c => colName c == n) with
    | some c => evalGrpJ o env g c
    | none => evalGrpJ o env g e)
  | _ => evalGrpJ o env g e

def grpLeJ (o : Oracles) (env : Env) (cols : List Expr) : List Expr → List Row → List Row → Bool
  | [], _, _ => true
  | .orderBy e d :: es, a, b =>
    let x := orderValJ o env cols a e
    let y := orderValJ o env cols b e
    if x == y then grpLeJ o env cols es a b else valLe d x y
  | _ :: es, a, b => grpLeJ o env cols es a b

/-- one SELECT body inside the scope `env` (its own WITH list was hoisted) with the added features -/
def evalBodyJ (o : Oracles) (ao : AggOracles) (db : Db) (env : Env) : Sel → Table
  | .mk _ distinct cols from_ joins pre wher gb having ob limit =>
    let src := match from_ with | some f => sourceRowsG o ao db env f | none => []
    let joined := joins.foldl (fun t (j : String × Alias × Expr) => anyLeftJoinJ o env t j.2.1 j.2.2) src
    let filtered := joined.filter (fun r => optBJ o env r pre && optBJ o env r wher)
    match gb with
    | [] =>
      let rows := filtered.map (project o env cols)
      let rows := if distinct then dedup rows else rows
      limitG limit (if ob.isEmpty then rows else sortBy (rowLe (orderKeys ob)) rows)
    | _ =>
      let keyOf := fun (r : Row) => gb.map (fun k => evalE o env r k)
      let groups := (dedup (filtered.map keyOf)).map (fun k => filtered.filter (fun r => keyOf r == k))
      let kept := groups.filter (fun g => havingG o ao env g having)
      let ordered := if ob.isEmpty then kept else sortBy (grpLeJ o env cols ob) kept
      (limitG limit ordered).map (fun g => cols.map (fun c => (colName c, evalGrpJ o env g c)))

def isJ : Expr → Bool
  | .col e _ => isJ e
  | .orderBy e _ => isJ e
  | .call fn _ => isJcall fn
  | _ => false

def clauseTuple (c : Expr) : Bool :=
  isTupleIn c || (match c with | .logical fn cs => fn == "and" && cs.any isTupleIn | _ => false)

def whereTuple : Option Expr → Bool
  | some (.logical fn cs) => fn == "and" && cs.any clauseTuple
  | _ => false

/-- does the select use one of the added features? -/
def usesJ : Sel → Bool
  | .mk _ _ cols _ joins pre wher _ _ ob _ =>
    !joins.isEmpty || whereTuple pre || whereTuple wher || cols.any isJ || ob.any isJ

/-- a sub-query of a statement: by `Sql.SemG` unless it uses an added feature -/
def evalCteJ (o : Oracles) (ao : AggOracles) (db : Db) (env : Env) (s : Sel) : Table :=
  if usesJ s then evalBodyJ o ao db env s else evalSelG o ao db false env s

def evalWithsJ (o : Oracles) (ao : AggOracles) (db : Db) : Env → List (Alias × Sel) → Env
  | env, [] => env
  | env, (a, s) :: ws => evalWithsJ o ao db ((a, evalCteJ o ao db env s) :: env) ws

def selWiths : Sel → List (Alias × Sel)
  | .mk ws _ _ _ _ _ _ _ _ _ _ => ws

/-- a whole statement: its WITH list in order, then the body -/
def evalStmtJ (o : Oracles) (ao : AggOracles) (db : Db) (s : Sel) : Table :=
  evalCteJ o ao db (evalWithsJ o ao db [] (selWiths s)) s

end Qryn.Sql
