import Qryn.Sql.SegsOf
import Qryn.Proofs.Ident
/-! Well-formedness of the raw text a `sql_select` tree is rendered with, as a computable condition on the
    raw atoms only (keywords, table and column names, aliases, numbers, identifier-restricted literals):
    `wfSel s` says nothing about the contents of string leaves. -/
namespace Qryn.Sql
open Qryn Qryn.Lex

/-- between tokens or inside a bareword: a quote opens a fresh literal, any byte is read afresh -/
def _root_.Qryn.Lex.St.ground : St → Bool
  | .normal | .word => true
  | _ => false
/-- `ground`, or just after the closing quote of a literal -/
def _root_.Qryn.Lex.St.entry : St → Bool
  | .normal | .word | .strQ => true
  | _ => false

/-- a raw fragment that may follow a literal (it does not start with a quote) and leaves the lexer in a
    ground state: keywords, separators, brackets, `name(`, ` as alias` -/
def rawC (x : Bytes) : Bool :=
  [St.normal, .word, .strQ].all (fun q => (q != .strQ || x.head? != some 39) && (run q x).1.ground)
/-- a raw fragment that, read from a ground state, ends in a ground state or just after a closed literal:
    names, numbers, constant expressions -/
def rawE (x : Bytes) : Bool := [St.normal, .word].all (fun q => (run q x).1.entry)

mutual
def wfExpr : Expr → Bool
  | .raw s => rawE (b s)
  | .str _ => true
  | .int i => rawE (intText i)
  | .col e a => wfExpr e && (a.isEmpty || rawC (b " as " ++ b a))
  | .withRef a => rawE (b a.text)
  | .lit s => (b s).all litSafe
  | .tsLabels => true
  | .numLit s => rawE (b s)
  | .isIn l r => wfExpr l && wfExprs r
  | .logical fn cs => rawC (b " " ++ b fn ++ b " ") && wfExprs cs
  | .not e => wfExpr e
  | .notNull e => wfExpr e
  | .matchFn c _ => wfExpr c
  | .bitSetAnd cs => wfShift 0 cs
  | .call fn args => rawC (b fn ++ b "(") && wfExprs args
  | .orderBy e _ => wfExpr e
  | .sub s => wfSel s
  | .callT fn args => rawC (b fn ++ b "(") && wfExprs args
  | .bitSet cs a => wfShiftT 0 cs && rawC (b ")" ++ (if a.isEmpty then [] else b " as " ++ b a))
  | .setOp op ss => rawC (b " " ++ b op ++ b " ") && wfSels ss
  | .arrayJoin src arr => wfExpr src && wfExpr arr
  | .anyIfNum _ => true
  | .distinct e => wfExpr e
  | .mulOp x y => wfExpr x && wfExpr y
  | .divOp x y => wfExpr x && wfExpr y
  | .mapFilterKeys _ _ m => wfExpr m
  | .mapAt m _ => wfExpr m
  | .tupleAt name i => rawE (b name ++ b "." ++ natDigits i)
  | .topkSlice isTop hasLabels k => rawE (topkText isTop hasLabels k)
  | .arrayJoinFrom src arr => wfExpr src && wfExpr arr
  | .fixedLit units scale => rawE (b (fixedText units scale))
  | .jsonMap ps => ps.all (fun p => p.2.all (fun a => match a with | .key _ => true | .idx i => rawE (intText i)))
  | .regexMap _ _ id => rawC (regexMid id) && rawC (regexPost id)
  | .mapDrop m _ => wfExpr m
  | .labelsFp => true
  | .quantileAgg units scale col => rawE (b "quantile(" ++ b (fixedText units scale) ++ b ")(" ++ b col ++ b ")")
def wfSels : List Sel → Bool
  | [] => true
  | s :: ss => wfSel s && wfSels ss
def wfExprs : List Expr → Bool
  | [] => true
  | o :: os => wfExpr o && wfExprs os
def wfShift (i : Nat) : List Expr → Bool
  | [] => true
  | o :: os => wfExpr o && rawC (b "), " ++ natDigits i ++ b ")") && wfShift (i + 1) os
def wfShiftT (i : Nat) : List Expr → Bool
  | [] => true
  | o :: os => wfExpr o && rawC (b ")," ++ natDigits i ++ b ")") && wfShiftT (i + 1) os
def wfWiths : List (Alias × Sel) → Bool
  | [] => true
  | (a, s) :: ws => rawC (b a.text ++ b " as (") && wfSelBody s && wfWiths ws
def wfJoins : List (String × Alias × Expr) → Bool
  | [] => true
  | (tp, tbl, on) :: js => rawC (b " " ++ b tp ++ b " JOIN " ++ b tbl.text ++ b " ON ") && wfExpr on && wfJoins js
def wfSelBody : Sel → Bool
  | .mk _ _ cols from_ joins pre wher gb having ob limit =>
    wfExprs cols &&
    (match from_ with | some f => wfExpr f && wfJoins joins | none => true) &&
    (match pre with | some p => wfExpr p | none => true) &&
    (match wher with | some p => wfExpr p | none => true) &&
    wfExprs gb &&
    (match having with | some p => wfExpr p | none => true) &&
    wfExprs ob &&
    (match limit with | some l => wfExpr l | none => true)
def wfSel : Sel → Bool
  | .mk withs distinct cols from_ joins pre wher gb having ob limit =>
    wfWiths withs && wfSelBody (.mk withs distinct cols from_ joins pre wher gb having ob limit)
end

end Qryn.Sql
