import Qryn.Sql.Sem
/-! Semantics of the aggregating SELECTs the LogQL metric planners emit (C08), on top of `Sql.Sem`.
    It documents, in executable form, the ClickHouse behaviour the C08 proofs rely on:

    * `GROUP BY k₁, k₂`: one output row per distinct key tuple, in order of first occurrence; aggregate
      calls in the select list are evaluated over the rows of the group, everything else on its first row.
    * name resolution (`prefer_column_name_to_alias = 0`): an unqualified name that is the alias of
      another column of the same SELECT denotes that column's expression (so `cityHash64(labels)` next to
      `mapFilter(…) as labels` hashes the *filtered* map, and `GROUP BY timestamp_ns` groups by the bucket
      expression aliased `timestamp_ns`); inside its own defining expression a name denotes the source
      column; qualified names (`t.c`) always denote source columns; arguments of aggregate functions see
      the non-aggregate aliases only.
    * aggregates: `COUNT()/count()`, `sum`, `min`, `max`, `avg`, `any` (first row), `argMin/argMax`
      (value at the least/greatest key, first such row), `countMerge` (sum of the partial counts).
      Float64 arithmetic is exact rational arithmetic here: no IEEE rounding, no NaN/inf (a division by
      zero yields null). `varPop` is the population variance (exact), `stddevPop` the oracle `sqrt` of it (the square
      root is not a rational function: uninterpreted, the same function on the LogQL side), `quantile(φ)(x)` the oracle
      `quantile φ` of the group's values in the order the rows are read (ClickHouse's reservoir/interpolation algorithm is
      not interpreted; the same function on the LogQL side).
    * `HAVING` filters the output rows (also without GROUP BY, where it acts on the projected rows).
    * `arraySlice(arraySort(λ, groupArray((v, fp[, labels]))), 1, k)` and `ARRAY JOIN`: see `topkAgg`,
      `sourceRowsA`.
    Trusted base: this is a model of ClickHouse, not ClickHouse. -/
namespace Qryn.Sql

def aggNames : List String :=
  ["COUNT", "count", "sum", "min", "max", "avg", "any", "argMin", "argMax", "countMerge", "varPop", "stddevPop"]

/-- does the select-list expression contain an aggregate call (shapes the planners emit) -/
def hasAgg : Expr → Bool
  | .col e _ => hasAgg e
  | .mulOp x y => hasAgg x || hasAgg y
  | .divOp x y => hasAgg x || hasAgg y
  | .call fn args => aggNames.contains fn ||
      (match args with | [.call fn' _] => aggNames.contains fn' | _ => false)
  | .topkSlice _ _ _ => true
  | .quantileAgg _ _ _ => true
  | _ => false

/-- first pass: the non-aggregate aliased columns evaluated on the source row -/
def aliasVals (o : Oracles) (env : Env) (cols : List Expr) (r : Row) : Row :=
  cols.filterMap (fun c => match c with
    | .col e a => if hasAgg e then none else some (a, evalE o env r e)
    | _ => none)

/-- the row an expression named `self` of the select list sees: the other aliases shadow source columns -/
def scope (o : Oracles) (env : Env) (cols : List Expr) (self : String) (r : Row) : Row :=
  (aliasVals o env cols r).filter (fun p => p.1 != self) ++ r

def projectA (o : Oracles) (env : Env) (cols : List Expr) (r : Row) : Row :=
  cols.map (fun c => (colName c, evalE o env (scope o env cols (colName c) r) c))

/-! ### aggregate functions over the values of a group -/
def ratsOf (vs : List Val) : Option (List Rat) := vs.mapM Val.toRat?

def ratSum (qs : List Rat) : Rat := qs.foldl (· + ·) 0

def sumAgg (vs : List Val) : Val := match ratsOf vs with | some qs => .rat (ratSum qs) | none => .null
def minAgg (vs : List Val) : Val := match ratsOf vs with | some (q :: qs) => .rat (qs.foldl min q) | _ => .null
def maxAgg (vs : List Val) : Val := match ratsOf vs with | some (q :: qs) => .rat (qs.foldl max q) | _ => .null
def avgAgg (vs : List Val) : Val :=
  match ratsOf vs with
  | some (q :: qs) => .rat (ratSum (q :: qs) / ((q :: qs).length : Int))
  | _ => .null
def anyAgg (vs : List Val) : Val := vs.head?.getD .null
/-- population variance of a non-empty list: mean of the squared deviations from the mean -/
def varPopRat (qs : List Rat) : Rat :=
  let m := ratSum qs / (qs.length : Int)
  ratSum (qs.map (fun x => (x - m) * (x - m))) / (qs.length : Int)
def varPopAgg (vs : List Val) : Val := match ratsOf vs with | some (q :: qs) => .rat (varPopRat (q :: qs)) | _ => .null
def stddevPopAgg (o : Oracles) (vs : List Val) : Val :=
  match ratsOf vs with | some (q :: qs) => .rat (o.sqrt (varPopRat (q :: qs))) | _ => .null
/-- `quantile(φ)(x)`: the oracle applied to the numeric values of the group, in row order -/
def quantileAggV (o : Oracles) (phi : Rat) (vs : List Val) : Val :=
  match ratsOf vs with | some (q :: qs) => .rat (o.quantile phi (q :: qs)) | _ => .null
/-- `countMerge`: the partial counts of the group added up -/
def countMergeAgg (vs : List Val) : Val :=
  match vs.mapM (fun | .int i => some i | _ => none) with
  | some is => .int (is.foldl (· + ·) 0)
  | none => .null

def keyInt : Val → Int
  | .int i => i
  | _ => 0

/-- `argMin(v, k)`: the `v` of the first row whose key is the least -/
def argMinAgg : List (Val × Val) → Val
  | [] => .null
  | p :: ps => (ps.foldl (fun best q => if keyInt q.2 < keyInt best.2 then q else best) p).1
/-- `argMax(v, k)`: the `v` of the first row whose key is the greatest -/
def argMaxAgg : List (Val × Val) → Val
  | [] => .null
  | p :: ps => (ps.foldl (fun best q => if keyInt best.2 < keyInt q.2 then q else best) p).1

/-! ### top/bottom-k (TopKPlanner) -/
def atomRat : Atom → Rat
  | .int i => i
  | .rat q => q
  | _ => 0
def atomInt : Atom → Int
  | .int i => i
  | _ => 0

def tupleValue (t : List Atom) : Rat := atomRat (t.headD .null)
def tupleFp (t : List Atom) : Int := atomInt ((t.drop 1).headD .null)

/-- `arraySort(x -> (-x.1, x.2[, x.3]), …)`: greatest value first, ties by ascending fingerprint -/
def topLe (x y : List Atom) : Bool :=
  decide (tupleValue y < tupleValue x) || (tupleValue x == tupleValue y && decide (tupleFp x ≤ tupleFp y))
/-- `arraySort(…)` of tuples: least value first, ties by ascending fingerprint -/
def bottomLe (x y : List Atom) : Bool :=
  decide (tupleValue x < tupleValue y) || (tupleValue x == tupleValue y && decide (tupleFp x ≤ tupleFp y))

/-- `arraySlice(arraySort([λ,] groupArray((par_a.value, par_a.fingerprint[, par_a.labels]))), 1, k)` -/
def topkAgg (isTop hasLabels : Bool) (k : Nat) (grp : List Row) : Val :=
  let tuples := grp.map (fun r =>
    [(r.get "par_a.value").toAtom, (r.get "par_a.fingerprint").toAtom] ++
      (if hasLabels then [(r.get "par_a.labels").toAtom] else []))
  .tuples ((sortBy (if isTop then topLe else bottomLe) tuples).take k)

/-- a direct aggregate call over the rows of a group (`rowOf` gives the row the arguments see) -/
def aggCall (o : Oracles) (env : Env) (rows : List Row) (fn : String) (args : List Expr) : Option Val :=
  match fn, args with
  | "COUNT", [] => some (.int rows.length)
  | "count", [] => some (.int rows.length)
  | "sum", [e] => some (sumAgg (rows.map (fun r => evalE o env r e)))
  | "min", [e] => some (minAgg (rows.map (fun r => evalE o env r e)))
  | "max", [e] => some (maxAgg (rows.map (fun r => evalE o env r e)))
  | "avg", [e] => some (avgAgg (rows.map (fun r => evalE o env r e)))
  | "any", [e] => some (anyAgg (rows.map (fun r => evalE o env r e)))
  | "countMerge", [e] => some (countMergeAgg (rows.map (fun r => evalE o env r e)))
  | "argMin", [v, k] => some (argMinAgg (rows.map (fun r => (evalE o env r v, evalE o env r k))))
  | "argMax", [v, k] => some (argMaxAgg (rows.map (fun r => (evalE o env r v, evalE o env r k))))
  | "varPop", [e] => some (varPopAgg (rows.map (fun r => evalE o env r e)))
  | "stddevPop", [e] => some (stddevPopAgg o (rows.map (fun r => evalE o env r e)))
  | _, _ => none

/-- a select-list expression over a group: `rows` = the group's rows as aggregate arguments see them,
    `first` = the row non-aggregate expressions are evaluated on -/
def evalAgg (o : Oracles) (env : Env) (rows : List Row) (first : Row) : Expr → Val
  | .col e _ => evalAgg o env rows first e
  | .mulOp x y => mulVal (evalAgg o env rows first x) (evalAgg o env rows first y)
  | .divOp x y => divVal (evalAgg o env rows first x) (evalAgg o env rows first y)
  | .topkSlice isTop hasLabels k => topkAgg isTop hasLabels k rows
  | .quantileAgg units scale col =>
    quantileAggV o ((units : Int) / ((10 ^ scale : Nat) : Int)) (rows.map (fun r => r.get col))
  | .call fn args =>
    match aggCall o env rows fn args with
    | some v => v
    | none =>
      match fn, args with
      | "toFloat64", [.call fn' args'] =>
        (match aggCall o env rows fn' args' with
         | some v => (match v.toRat? with | some q => .rat q | none => .null)
         | none => evalE o env first (.call fn args))
      | _, _ => evalE o env first (.call fn args)
  | e => evalE o env first e

/-! ### HAVING: a conjunction of comparisons of output columns with literals (ComparisonPlanner) -/
def ratCmp (fn : String) (x y : Rat) : Bool :=
  match fn with
  | "==" => x == y | "!=" => x != y | "<" => decide (x < y) | "<=" => decide (x ≤ y)
  | ">" => decide (y < x) | ">=" => decide (y ≤ x) | _ => false

def cmpHolds (o : Oracles) (env : Env) (out : Row) : Expr → Bool
  | .logical fn [x, y] =>
    (match (evalE o env out x).toRat?, (evalE o env out y).toRat? with
     | some a, some c => ratCmp fn a c
     | _, _ => false)
  | _ => false

def havingA (o : Oracles) (env : Env) (out : Row) : Expr → Bool
  | .logical "and" cs => cs.all (cmpHolds o env out)
  | e => cmpHolds o env out e

/-! ### FROM -/
def tupleCols (name : String) (t : List Atom) : Row :=
  t.zipIdx.map (fun (p : Atom × Nat) => (name ++ "." ++ toString (p.2 + 1), p.1.toVal))

def sourceRowsA (o : Oracles) (db : Db) (env : Env) : Expr → Table
  | .col (.withRef a) alias => ((env.lookup a).getD []).map (qualify alias)
  | .arrayJoinFrom src arr =>
    (sourceRows db env src).flatMap (fun r =>
      match evalE o env r arr with
      | .tuples ts => ts.map (fun t => r ++ tupleCols (colName arr) t)
      | _ => [])
  | f => sourceRows db env f

/-- one SELECT of the aggregating kind -/
def evalBodyA (o : Oracles) (db : Db) (env : Env) : Sel → Table
  | .mk _ _ cols from_ joins pre wher gb having ob limit =>
    let src := match from_ with | some f => sourceRowsA o db env f | none => []
    let joined := joins.foldl (fun t (j : String × Alias × Expr) => anyLeftJoin o env t j.2.1 j.2.2) src
    let filtered := joined.filter (fun r => optB o env r pre && optB o env r wher)
    let out : Table :=
      if gb.isEmpty && !(cols.any hasAgg) then filtered.map (projectA o env cols)
      else
        let keyOf := fun (r : Row) => gb.map (fun g => evalE o env (aliasVals o env cols r ++ r) g)
        (filtered.map keyOf).eraseDups.map (fun k =>
          let grp := filtered.filter (fun r => keyOf r == k)
          let rows := grp.map (fun r => aliasVals o env cols r ++ r)
          cols.map (fun c => (colName c,
            evalAgg o env rows (scope o env cols (colName c) (grp.headD [])) c)))
    let kept := match having with | some h => out.filter (fun r => havingA o env r h) | none => out
    let ordered := if ob.isEmpty then kept else sortBy (rowLe (orderKeys ob)) kept
    match limit with
    | some (.int n) => ordered.take n.toNat
    | _ => ordered

/-- the stream selector keeps its `Sql.Sem` reading (GROUP BY one key, bit-set HAVING) -/
def isBitSetSel : Sel → Bool
  | .mk _ _ _ _ _ _ _ _ (some (.logical "and" [.logical "==" [.bitSetAnd _, _]])) _ _ => true
  | _ => false

def evalBodyM (o : Oracles) (db : Db) (env : Env) (s : Sel) : Table :=
  if isBitSetSel s then evalBody o db env s else evalBodyA o db env s

def evalWithsA (o : Oracles) (db : Db) : Env → List (Alias × Sel) → Env
  | env, [] => env
  | env, (a, s) :: ws => evalWithsA o db ((a, evalBodyM o db env s) :: env) ws

/-- a whole statement: the WITH list in order, then the body -/
def evalSelA (o : Oracles) (db : Db) (s : Sel) : Table :=
  match s with
  | .mk ws d c f j p w g h ob l => evalBodyM o db (evalWithsA o db [] ws) (.mk ws d c f j p w g h ob l)

end Qryn.Sql
