import Qryn.Sql.SegsOf
/-! C10: the TEMPLATE of a `sql_select` model tree — the same tree with the contents of every string leaf
    (`StringVal`, the pattern of `sqlMatch`, the keys of `anyIfNum` / `mapAt` / `mapFilterKeys`) emptied. Two
    statements with the same template differ only in request strings. -/
namespace Qryn.Sql
open Qryn

mutual
def eraseExpr : Expr → Expr
  | .raw s => .raw s
  | .str _ => .str []
  | .int i => .int i
  | .col e a => .col (eraseExpr e) a
  | .withRef a => .withRef a
  | .lit s => .lit s
  | .tsLabels => .tsLabels
  | .numLit s => .numLit s
  | .isIn l r => .isIn (eraseExpr l) (eraseExprs r)
  | .logical fn cs => .logical fn (eraseExprs cs)
  | .not e => .not (eraseExpr e)
  | .notNull e => .notNull (eraseExpr e)
  | .matchFn c _ => .matchFn (eraseExpr c) []
  | .bitSetAnd cs => .bitSetAnd (eraseExprs cs)
  | .call fn args => .call fn (eraseExprs args)
  | .orderBy e d => .orderBy (eraseExpr e) d
  | .sub s => .sub (eraseSel s)
  | .callT fn args => .callT fn (eraseExprs args)
  | .bitSet cs a => .bitSet (eraseExprs cs) a
  | .setOp op ss => .setOp op (eraseSels ss)
  | .arrayJoin src arr => .arrayJoin (eraseExpr src) (eraseExpr arr)
  | .anyIfNum _ => .anyIfNum []
  | .distinct e => .distinct (eraseExpr e)
  | .mulOp x y => .mulOp (eraseExpr x) (eraseExpr y)
  | .divOp x y => .divOp (eraseExpr x) (eraseExpr y)
  | .mapFilterKeys keep keys m => .mapFilterKeys keep (keys.map (fun _ => [])) (eraseExpr m)
  | .mapAt m _ => .mapAt (eraseExpr m) []
  | .tupleAt name i => .tupleAt name i
  | .topkSlice isTop hasLabels k => .topkSlice isTop hasLabels k
  | .arrayJoinFrom src arr => .arrayJoinFrom (eraseExpr src) (eraseExpr arr)
  | .fixedLit units scale => .fixedLit units scale
def eraseExprs : List Expr → List Expr
  | [] => []
  | o :: os => eraseExpr o :: eraseExprs os
def eraseSels : List Sel → List Sel
  | [] => []
  | s :: ss => eraseSel s :: eraseSels ss
def eraseWiths : List (Alias × Sel) → List (Alias × Sel)
  | [] => []
  | (a, s) :: ws => (a, eraseSel s) :: eraseWiths ws
def eraseJoins : List (String × Alias × Expr) → List (String × Alias × Expr)
  | [] => []
  | (tp, tbl, on) :: js => (tp, tbl, eraseExpr on) :: eraseJoins js
def eraseOpt : Option Expr → Option Expr
  | none => none
  | some e => some (eraseExpr e)
def eraseSel : Sel → Sel
  | .mk withs distinct cols from_ joins pre wher gb having ob limit =>
    .mk (eraseWiths withs) distinct (eraseExprs cols) (eraseOpt from_) (eraseJoins joins) (eraseOpt pre) (eraseOpt wher)
      (eraseExprs gb) (eraseOpt having) (eraseExprs ob) (eraseOpt limit)
end

end Qryn.Sql
