import Qryn.Sql.Escape
/-! A rendered statement as a list of segments: raw SQL text written by the planners and string
    leaves (`StringVal`) holding request strings. -/
namespace Qryn.Sql
open Qryn Qryn.Lex

inductive Seg
  | raw (b : Bytes)
  | str (s : Bytes)
deriving DecidableEq, Repr

def Seg.render : Seg → Bytes
  | .raw b => b
  | .str s => quote s

def renderSegs (segs : List Seg) : Bytes := segs.flatMap Seg.render

/-- erase the contents of every string leaf -/
def Seg.shape : Seg → Seg
  | .raw b => .raw b
  | .str _ => .str []

def runSegs (q : St) : List Seg → St × List Ev
  | [] => (q, [])
  | sg :: rest => let r := run q sg.render; let r' := runSegs r.1 rest; (r'.1, r.2 ++ r'.2)

/-- The template (the raw parts) is well formed for its string leaves: every leaf starts where a quote
    opens a fresh literal, and the text after a leaf does not continue the literal with another quote.
    Depends only on the raw parts. -/
def safeSegs : St → List Seg → Bool
  | _, [] => true
  | q, .raw b :: rest => (q != .strQ || b.head? != some 39) && safeSegs (run q b).1 rest
  | q, .str _ :: rest => q.safe && safeSegs .strQ rest

def eraseS : List Ev → List Ev := List.filter (fun e => match e with | .sByte _ => false | _ => true)

end Qryn.Sql
