import Qryn.Sql.Escape
/-! The `sql_select` object model (reader/utils/sql_select) plus the planner-specific nodes, as an
    inductive AST, and `render`, mirroring every `String` method. Rendering is to bytes (Go strings). -/
namespace Qryn.Sql

def b (s : String) : Bytes := s.toUTF8.toList

inductive Dir | asc | desc
deriving DecidableEq, Repr

/-- names of WITH sub-queries: fixed names chosen by the planners, or `subsel_<k>` from `ctx.Id()` -/
inductive Alias | named (s : String) | sub (k : Nat)
deriving DecidableEq, Repr

def Alias.text : Alias → String
  | .named s => s
  | .sub k => "subsel_" ++ toString k

/-- one argument of a ClickHouse JSON path (`JSONType(doc, 'a', 1, …)`): an object key or an array position (from 1) -/
inductive JArg | key (k : Bytes) | idx (i : Int)
deriving DecidableEq, Repr

mutual
inductive Expr where
  | raw (s : String)                        -- RawObject: column references, table names, constants
  | str (s : Bytes)                         -- StringVal
  | int (i : Int)                           -- IntVal
  | col (e : Expr) (alias : String)         -- Col / SimpleCol
  | withRef (alias : Alias)                 -- WithRef (not inlined)
  | lit (s : String)                        -- 'text' written with Sprintf("'%s'"): NOT escaped (identifiers only)
  | tsLabels                                -- the labels-map expression of TimeSeriesInitPlanner
  | numLit (s : String)                     -- FloatVal rendered with %f
  | isIn (l : Expr) (r : List Expr)         -- In
  | logical (fn : String) (cs : List Expr)  -- LogicalOp: and / or / == / != / < / <= / > / >=
  | not (e : Expr)                          -- CNot
  | notNull (e : Expr)                      -- CNotNull
  | matchFn (c : Expr) (pat : Bytes)        -- sqlMatch
  | bitSetAnd (cs : List Expr)              -- SqlBitSetAnd
  | call (fn : String) (args : List Expr)   -- text of the shape `fn(a, b, …)` written by a planner
  | orderBy (e : Expr) (d : Dir)            -- OrderBy
  | sub (s : Sel)                           -- a sub-select used as an object
  -- added for the TraceQL planner (C11); rendering of everything above is unchanged
  | callT (fn : String) (args : List Expr)  -- text of the shape `fn(a,b,…)` (no blank after the comma): bitAnd, match, …
  | bitSet (cs : List Expr) (alias : String) -- groupBitOr{bitSet}: `groupBitOr(bitShiftLeft(toUInt64(c₀),0)+…) as alias`
  | setOp (op : String) (ss : List Sel)     -- intersect / union: `(s₀ OP s₁ …)`, every operand with its own WITH
  | arrayJoin (src arr : Expr)              -- `From(src).Join(NewJoin("array", arr, nil))`: `src array JOIN arr `
  | anyIfNum (key : Bytes)                  -- sqlAttrValue: `anyIf(toFloat64OrNull(val), key == '<key>')`
  | distinct (e : Expr)                     -- `distinct e` inside count(…)
  -- ---- added for the LogQL metric planners (C08); additive
  | mulOp (a b : Expr)                      -- text `a * b` (e.g. `intDiv(ts, d) * d`)
  | divOp (a b : Expr)                      -- text `a / b` (e.g. `toFloat64(COUNT()) / 5.000000`)
  | mapFilterKeys (keep : Bool) (keys : List Bytes) (m : Expr)  -- byWithoutFilterCol: `mapFilter((k,v) -> k [NOT ]IN ('a','b'), m)`; `by ()`: `mapFilter((k,v) -> 0, m)`
  | mapAt (m : Expr) (key : Bytes)          -- `m['key']` (UnwrapPlanner)
  | tupleAt (name : String) (i : Nat)       -- `arr_b.2` (TopKPlanner)
  | topkSlice (isTop hasLabels : Bool) (k : Nat)  -- TopKPlanner: `arraySlice(arraySort([λ,]groupArray((par_a.value, par_a.fingerprint[, par_a.labels]))), 1, k)`
  | arrayJoinFrom (src arr : Expr)          -- FROM `src array JOIN arr ` (Join of type "array": no ON, trailing blank)
  | fixedLit (units scale : Nat)            -- a FloatVal/`%f` literal whose value is units / 10^scale (scale ≤ 6), printed with six decimals
  -- ---- added for the SQL-side LogQL pipeline stages (C07: json with parameters, regexp, drop); additive
  | jsonMap (ps : List (Bytes × List JArg))                 -- sqlJsonParser over column `string`: `mapFromArrays(['l',…], [if(JSONType(string, path)…),…])`
  | regexMap (labels : List Bytes) (re : Bytes) (id : Nat)  -- regexMap over column `string` (`re_lbls_<id>`, `re_vals_<id>`)
  | mapDrop (m : Expr) (ps : List (Bytes × Bytes))          -- mapDropFilter: `mapFilter((k,v) -> k!='a' and (k, v)!=('b', 'c'), m)`
  | labelsFp                                                -- `cityHash64(arraySort(arrayZip(mapKeys(labels),mapValues(labels))))` (ParserPlanner, PlannerDrop)
  -- ---- added for QuantilePlanner (C08 ext); additive
  | quantileAgg (units scale : Nat) (col : String)          -- `quantile(φ)(col)` with φ = units / 10^scale printed by `%f` (a parametric aggregate function)
inductive Sel where
  | mk (withs : List (Alias × Sel)) (distinct : Bool) (cols : List Expr) (from_ : Option Expr)
       (joins : List (String × Alias × Expr)) (preWhere wher : Option Expr) (groupBy : List Expr)
       (having : Option Expr) (orderBy : List Expr) (limit : Option Expr)
end

def joinB (sep : Bytes) : List Bytes → Bytes
  | [] => []
  | [x] => x
  | x :: xs => x ++ sep ++ joinB sep xs

def natDigits (n : Nat) : Bytes := (toString n).toUTF8.toList
def intText (i : Int) : Bytes := (toString i).toUTF8.toList

/-- `%f` text of units / 10^scale for scale ≤ 6: integer part, `.`, `scale` digits, zero padding to six decimals -/
def fixedText (units scale : Nat) : String :=
  let p := 10 ^ scale
  let frac := toString (units % p)
  toString (units / p) ++ "." ++
    (if scale = 0 then "" else String.ofList (List.replicate (scale - frac.length) '0') ++ frac) ++
    String.ofList (List.replicate (6 - scale) '0')

def tsLabelsText : String :=
  "mapFromArrays(arrayMap(x -> x.1, JSONExtractKeysAndValues(time_series.labels, 'String') as rawlbls), " ++
  "arrayMap(x -> x.2, rawlbls))"

def labelsFpText : String := "cityHash64(arraySort(arrayZip(mapKeys(labels),mapValues(labels))))"

def jargText : JArg → Bytes
  | .key k => quote k
  | .idx i => intText i

/-- `sqlJsonParser.path2Sql` (after the `fix:`): every call is given the whole path -/
def jsonGetText (path : List JArg) : Bytes :=
  let p := joinB (b ",") (path.map jargText)
  b "if(JSONType(string, " ++ p ++ b ") == 'String', JSONExtractString(string, " ++ p ++ b "), JSONExtractRaw(string, " ++ p ++ b "))"

/-- `sqlJsonParser.String` -/
def jsonMapText (ps : List (Bytes × List JArg)) : Bytes :=
  b "mapFromArrays([" ++ joinB (b ",") (ps.map (fun p => quote p.1)) ++ b "], [" ++
    joinB (b ",") (ps.map (fun p => jsonGetText p.2)) ++ b "])"

/-- `regexMap.String` -/
def regexMapText (labels : List Bytes) (re : Bytes) (id : Nat) : Bytes :=
  b "mapFromArrays(arrayFilter( (x,y) -> x != '' AND y != '',  [" ++ joinB (b ",") (labels.map quote) ++
    b "] as re_lbls_" ++ natDigits id ++ b ",  arrayMap(x -> x[length(x)], extractAllGroupsHorizontal(string, " ++ quote re ++
    b ")) as re_vals_" ++ natDigits id ++ b "),arrayFilter((x,y) -> x != '' AND y != '', re_vals_" ++ natDigits id ++
    b ", re_lbls_" ++ natDigits id ++ b "))"

/-- one clause of `mapDropFilter.genFilterFn` -/
def dropClauseText (p : Bytes × Bytes) : Bytes :=
  if p.2.isEmpty then b "k!=" ++ quote p.1 else b "(k, v)!=(" ++ quote p.1 ++ b ", " ++ quote p.2 ++ b ")"

mutual
def renderExpr : Expr → Bytes
  | .raw s => b s
  | .str s => quote s
  | .int i => intText i
  | .col e a => if a.isEmpty then renderExpr e else renderExpr e ++ b " as " ++ b a
  | .withRef a => b a.text
  | .lit s => b "'" ++ b s ++ b "'"
  | .tsLabels => b tsLabelsText
  | .numLit s => b s
  | .isIn l r => renderExpr l ++ b " IN (" ++ joinB (b ",") (renderExprs r) ++ b ")"
  | .logical fn cs => joinB (b " " ++ b fn ++ b " ") (renderParens cs)
  | .not e => b "!(" ++ renderExpr e ++ b ")"
  | .notNull e => renderExpr e ++ b " IS NOT NULL"
  | .matchFn c p => b "match(" ++ renderExpr c ++ b ", " ++ quote p ++ b ")"
  | .bitSetAnd cs => b "groupBitOr(" ++ joinB (b " + ") (renderShift 0 cs) ++ b ")"
  | .call fn args => b fn ++ b "(" ++ joinB (b ", ") (renderExprs args) ++ b ")"
  | .orderBy e d => renderExpr e ++ (match d with | .asc => b " asc" | .desc => b " desc")
  | .sub s => renderSel s
  | .callT fn args => b fn ++ b "(" ++ joinB (b ",") (renderExprs args) ++ b ")"
  | .bitSet cs a => b "groupBitOr(" ++ joinB (b "+") (renderShiftT 0 cs) ++ b ")" ++ (if a.isEmpty then [] else b " as " ++ b a)
  | .setOp op ss => b "(" ++ joinB (b " " ++ b op ++ b " ") (renderSels ss) ++ b ")"
  | .arrayJoin src arr => renderExpr src ++ b " array JOIN " ++ renderExpr arr ++ b " "
  | .anyIfNum k => b "anyIf(toFloat64OrNull(val), key == " ++ quote k ++ b ")"
  | .distinct e => b "distinct " ++ renderExpr e
  | .mulOp x y => renderExpr x ++ b " * " ++ renderExpr y
  | .divOp x y => renderExpr x ++ b " / " ++ renderExpr y
  | .mapFilterKeys keep keys m =>
    if keep && keys.isEmpty then b "mapFilter((k,v) -> 0, " ++ renderExpr m ++ b ")"
    else
    b "mapFilter((k,v) -> k " ++ b (if keep then "IN" else "NOT IN") ++ b " (" ++ joinB (b ",") (keys.map quote) ++ b "), " ++
      renderExpr m ++ b ")"
  | .mapAt m key => renderExpr m ++ b "[" ++ quote key ++ b "]"
  | .tupleAt name i => b name ++ b "." ++ natDigits i
  | .topkSlice isTop hasLabels k =>
    b "arraySlice(arraySort(" ++
      (if isTop then b "x -> (-x.1, x.2" ++ (if hasLabels then b ", x.3" else []) ++ b ")," else []) ++
      b "groupArray((par_a.value, par_a.fingerprint" ++ (if hasLabels then b ", par_a.labels" else []) ++ b "))), 1, " ++
      natDigits k ++ b ")"
  | .arrayJoinFrom src arr => renderExpr src ++ b " array JOIN " ++ renderExpr arr ++ b " "
  | .fixedLit units scale => b (fixedText units scale)
  | .jsonMap ps => jsonMapText ps
  | .regexMap labels re id => regexMapText labels re id
  | .mapDrop m ps => b "mapFilter((k,v) -> " ++ joinB (b " and ") (ps.map dropClauseText) ++ b ", " ++ renderExpr m ++ b ")"
  | .labelsFp => b labelsFpText
  | .quantileAgg units scale col => b "quantile(" ++ b (fixedText units scale) ++ b ")(" ++ b col ++ b ")"
def renderExprs : List Expr → List Bytes
  | [] => []
  | o :: os => renderExpr o :: renderExprs os
def renderParens : List Expr → List Bytes
  | [] => []
  | o :: os => (b "(" ++ renderExpr o ++ b ")") :: renderParens os
def renderShift (i : Nat) : List Expr → List Bytes
  | [] => []
  | o :: os => (b "bitShiftLeft(toUInt64(" ++ renderExpr o ++ b "), " ++ natDigits i ++ b ")") :: renderShift (i + 1) os
def renderShiftT (i : Nat) : List Expr → List Bytes
  | [] => []
  | o :: os => (b "bitShiftLeft(toUInt64(" ++ renderExpr o ++ b ")," ++ natDigits i ++ b ")") :: renderShiftT (i + 1) os
def renderSels : List Sel → List Bytes
  | [] => []
  | s :: ss => renderSel s :: renderSels ss
def renderWiths : List (Alias × Sel) → List Bytes
  | [] => []
  | (a, s) :: ws => (b a.text ++ b " as (" ++ renderSelBody s ++ b ")") :: renderWiths ws
def renderJoins : List (String × Alias × Expr) → Bytes
  | [] => []
  | (tp, tbl, on) :: js => b " " ++ b tp ++ b " JOIN " ++ b tbl.text ++ b " ON " ++ renderExpr on ++ renderJoins js
/-- a select without its own WITH clause (`STRING_OPT_SKIP_WITH`) -/
def renderSelBody : Sel → Bytes
  | .mk _ distinct cols from_ joins pre wher gb having ob limit =>
    b " SELECT " ++ (if distinct then b " DISTINCT " else []) ++ joinB (b ", ") (renderExprs cols) ++
    (match from_ with | some f => b " FROM " ++ renderExpr f ++ renderJoins joins | none => []) ++
    (match pre with | some p => b " PREWHERE " ++ renderExpr p | none => []) ++
    (match wher with | some p => b " WHERE " ++ renderExpr p | none => []) ++
    (if gb.isEmpty then [] else b " GROUP BY " ++ joinB (b ", ") (renderExprs gb)) ++
    (match having with | some p => b " HAVING " ++ renderExpr p | none => []) ++
    (if ob.isEmpty then [] else b " ORDER BY " ++ joinB (b ", ") (renderExprs ob)) ++
    (match limit with | some l => b " LIMIT " ++ renderExpr l | none => [])
def renderSel : Sel → Bytes
  | .mk withs distinct cols from_ joins pre wher gb having ob limit =>
    (if withs.isEmpty then [] else b "WITH " ++ joinB (b ",") (renderWiths withs)) ++
    renderSelBody (.mk withs distinct cols from_ joins pre wher gb having ob limit)
end

/-! smart constructors mirroring condition.go -/
def eq (x y : Expr) : Expr := .logical "==" [x, y]
def neq (x y : Expr) : Expr := .logical "!=" [x, y]
def lt (x y : Expr) : Expr := .logical "<" [x, y]
def le (x y : Expr) : Expr := .logical "<=" [x, y]
def gt (x y : Expr) : Expr := .logical ">" [x, y]
def ge (x y : Expr) : Expr := .logical ">=" [x, y]
def and_ (cs : List Expr) : Expr := .logical "and" cs
def or_ (cs : List Expr) : Expr := .logical "or" cs
def simpleCol (name alias : String) : Expr := .col (.raw name) alias

/-- `Select.AndWhere`: start an `and`, extend an existing top-level `and`, or wrap -/
def andCond (cur : Option Expr) (clauses : List Expr) : Expr :=
  match cur with
  | none => and_ clauses
  | some (.logical fn cs) => if fn = "and" then .logical fn (cs ++ clauses) else and_ (.logical fn cs :: clauses)
  | some e => and_ (e :: clauses)

end Qryn.Sql
