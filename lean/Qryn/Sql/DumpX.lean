import Qryn.Sql.Dump
/-! `regexMap` nodes take a fresh `ctx.Id()` of the rendering context when they are rendered; the reflection dump has
    no such number. This pass numbers them in rendering order (WITH entries in order, then the statement; inside a
    SELECT only the column list can hold one), as `Select.String` meets them. -/
namespace Qryn.Sql.Dump
open Qryn Qryn.Sql

mutual
def renumE : Nat → Expr → Expr × Nat
  | n, .regexMap l re _ => (.regexMap l re (n + 1), n + 1)
  | n, .col e a => ((.col (renumE n e).1 a), (renumE n e).2)
  | n, .call fn args => (.call fn (renumEs n args).1, (renumEs n args).2)
  | n, .mapDrop m ps => (.mapDrop (renumE n m).1 ps, (renumE n m).2)
  | n, e => (e, n)
def renumEs : Nat → List Expr → List Expr × Nat
  | n, [] => ([], n)
  | n, e :: es => ((renumE n e).1 :: (renumEs (renumE n e).2 es).1, (renumEs (renumE n e).2 es).2)
end

def renumBody (n : Nat) : Sel → Sel × Nat
  | .mk ws d cols f j p w g h ob l => (.mk ws d (renumEs n cols).1 f j p w g h ob l, (renumEs n cols).2)

def renumWiths : Nat → List (Alias × Sel) → List (Alias × Sel) × Nat
  | n, [] => ([], n)
  | n, (a, s) :: ws => ((a, (renumBody n s).1) :: (renumWiths (renumBody n s).2 ws).1, (renumWiths (renumBody n s).2 ws).2)

/-- the hoisted WITH list first, then the statement's own columns -/
def renumSel : Sel → Sel
  | .mk ws d cols f j p w g h ob l =>
    let r := renumWiths 0 ws
    (renumBody r.2 (.mk r.1 d cols f j p w g h ob l)).1

def selOfDumpX (s : String) : Option Sel := (selOfDump s).map renumSel

end Qryn.Sql.Dump
