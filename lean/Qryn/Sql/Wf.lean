import Qryn.Sql.Build
/-! Structural well-formedness of a statement: no operator, `IN`, function call, bit set or set operation
    with an empty operand list (each of them renders `()` or a dangling operator — invalid SQL), and a
    non-empty SELECT list. Decidable on the AST. -/
namespace Qryn.Sql

mutual
def wfE : Expr → Bool
  | .isIn l r => wfE l && !r.isEmpty && wfEs r
  | .logical _ cs => !cs.isEmpty && wfEs cs
  | .not e => wfE e
  | .notNull e => wfE e
  | .distinct e => wfE e
  | .orderBy e _ => wfE e
  | .col e _ => wfE e
  | .matchFn c _ => wfE c
  | .bitSetAnd cs => !cs.isEmpty && wfEs cs
  | .bitSet cs _ => !cs.isEmpty && wfEs cs
  | .call _ args => !args.isEmpty && wfEs args
  | .callT _ args => !args.isEmpty && wfEs args
  | .setOp _ ss => !ss.isEmpty && wfSs ss
  | .arrayJoin s a => wfE s && wfE a
  | .sub s => wfS s
  | .raw _ => true
  | .str _ => true
  | .int _ => true
  | .withRef _ => true
  | .lit _ => true
  | .tsLabels => true
  | .numLit _ => true
  | .anyIfNum _ => true
  | .mulOp a b => wfE a && wfE b
  | .divOp a b => wfE a && wfE b
  | .mapFilterKeys _ _ m => wfE m
  | .mapAt m _ => wfE m
  | .tupleAt _ _ => true
  | .topkSlice _ _ _ => true
  | .arrayJoinFrom s a => wfE s && wfE a
  | .fixedLit _ _ => true
  | .jsonMap ps => !ps.isEmpty
  | .regexMap _ _ _ => true
  | .mapDrop m ps => wfE m && !ps.isEmpty
  | .labelsFp => true
  | .quantileAgg _ _ _ => true
def wfEs : List Expr → Bool
  | [] => true
  | e :: es => wfE e && wfEs es
def wfSs : List Sel → Bool
  | [] => true
  | s :: ss => wfS s && wfSs ss
def wfWs : List (Alias × Sel) → Bool
  | [] => true
  | (_, s) :: ws => wfS s && wfWs ws
def wfJs : List (String × Alias × Expr) → Bool
  | [] => true
  | (_, _, on) :: js => wfE on && wfJs js
def wfO : Option Expr → Bool
  | some e => wfE e
  | none => true
def wfS : Sel → Bool
  | .mk ws _ cols from_ joins pre wher gb hav ob lim =>
    wfWs ws && !cols.isEmpty && wfEs cols && wfO from_ && wfJs joins && wfO pre && wfO wher && wfEs gb &&
    wfO hav && wfEs ob && wfO lim
end

end Qryn.Sql

namespace Qryn.Sql
/-- parenthesis depth after one more byte; `none` = a `)` without its `(` -/
def parenStep (st : Option Nat) (c : UInt8) : Option Nat :=
  match st with
  | none => none
  | some d => if c = 40 then some (d + 1) else if c = 41 then (if d = 0 then none else some (d - 1)) else some d

/-- the bytes have balanced parentheses (counted on the raw bytes: meaningful when no string literal
    contains a parenthesis) -/
def balancedB (bs : Bytes) : Bool := bs.foldl parenStep (some 0) == some 0
end Qryn.Sql
