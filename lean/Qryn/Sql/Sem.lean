import Qryn.Sql.Ast
import Qryn.Base.Sort
/-! A denotational semantics for the structured SQL subset the planner models emit, over a database of
    named tables. It documents, in executable form, the ClickHouse behaviour the proofs rely on:
    WHERE/PREWHERE filter rows; `x IN (cte)` tests membership in the first column of the sub-query;
    GROUP BY one key with the `groupBitOr(Σ bitShiftLeft(cᵢ, i))` aggregate in HAVING; ANY LEFT JOIN takes
    the first matching right row (defaults when there is none); ORDER BY is a stable sort; LIMIT takes a
    prefix. RE2 matching, JSON label documents and number parsing are uninterpreted oracles shared with
    the direct (LogQL) semantics. Trusted base: this is a model of ClickHouse, not ClickHouse. -/
namespace Qryn.Sql

/-- scalar components of a tuple (C08: the `(value, fingerprint[, labels])` tuples of TopKPlanner) -/
inductive Atom
  | int (i : Int)
  | rat (q : Rat)
  | str (s : Bytes)
  | null
  | map (m : List (Bytes × Bytes))
deriving DecidableEq, Repr

inductive Val
  | int (i : Int)
  | str (s : Bytes)
  | null
  | map (m : List (Bytes × Bytes))
  | num (s : Bytes)            -- the Float64 parsed from the text `s` (parsing is an oracle)
  | numLit (s : String)        -- a numeric literal written by the planner, e.g. `5.000000`
  | strs (vs : List Bytes)     -- Array(String) (C11: groupArray / groupUniqArray of span ids)
  -- ---- added for C08 (additive)
  | rat (q : Rat)              -- a Float64 value, idealised as an exact rational (no IEEE rounding is modelled)
  | tuples (ts : List (List Atom))  -- Array(Tuple(...)): `groupArray((a, b, c))` and what `arraySort`/`arraySlice` make of it
deriving DecidableEq, Repr

abbrev Row := List (String × Val)
abbrev Table := List Row

def Row.get (r : Row) (c : String) : Val := (r.lookup c).getD .null

structure Oracles where
  reMatch : Bytes → Bytes → Bool            -- RE2 `match(subject, pattern)`: pattern, subject
  jsonLabels : Bytes → List (Bytes × Bytes) -- `JSONExtractKeysAndValues(doc, 'String')`
  isNum : Bytes → Bool                      -- `toFloat64OrNull(s) IS NOT NULL`
  numCmp : String → Bytes → String → Bool   -- comparison operator, text of the value, literal text
  lower : Bytes → Bytes                     -- case folding used by ilike
  -- ---- added for C08 (additive; defaults keep existing structure instances valid)
  toFloat : Bytes → Rat := fun _ => 0       -- `toFloat64OrZero(s)`: the number a text denotes (0 when it is none)
  cityHash : List (Bytes × Bytes) → Int := fun _ => 0   -- `cityHash64(map)`
  -- ---- added for the SQL-side LogQL stages (C07: json with parameters, regexp); additive
  /-- `if(JSONType(doc, path…) == 'String', JSONExtractString(doc, path…), JSONExtractRaw(doc, path…))`: document, path -/
  jsonField : Bytes → List JArg → Bytes := fun _ _ => []
  /-- `arrayMap(x -> x[length(x)], extractAllGroupsHorizontal(subject, pattern))`: pattern, subject ↦ for every capture
      group of the pattern the text it captured in the LAST match ('' when there is none) -/
  reCaps : Bytes → Bytes → List Bytes := fun _ _ => []
  -- ---- added for C08 ext (quantile_over_time, stddev); additive
  /-- `quantile(φ)(x)` over the values of a group, in the order the rows are read: ClickHouse's `quantile` (reservoir of
      8192 values, interpolation) is not interpreted; both sides of the C08 theorems apply this one function -/
  quantile : Rat → List Rat → Rat := fun _ _ => 0
  /-- the square root `stddevPop` takes of `varPop` (not a rational function: uninterpreted, shared by both sides) -/
  sqrt : Rat → Rat := fun x => x

def boolVal (x : Bool) : Val := .int (if x then 1 else 0)
def Val.truthy : Val → Bool
  | .int i => i != 0
  | _ => false

/-! ### LIKE (ClickHouse `likePatternToRegexp`) -/
inductive PTok | any | one | lit (c : UInt8)
deriving DecidableEq, Repr

def parseLikeGo : Bool → Bytes → List PTok
  | false, [] => []
  | true, [] => [.lit 92]
  | false, c :: rest =>
      if c = 92 then parseLikeGo true rest
      else (if c = 37 then PTok.any else if c = 95 then PTok.one else PTok.lit c) :: parseLikeGo false rest
  | true, c :: rest =>
      if c = 37 ∨ c = 95 ∨ c = 92 then .lit c :: parseLikeGo false rest
      else .lit 92 :: .lit c :: parseLikeGo false rest

def anySuffix (f : Bytes → Bool) : Bytes → Bool
  | [] => f []
  | x :: s => f (x :: s) || anySuffix f s

def matchToks : List PTok → Bytes → Bool
  | [], s => s.isEmpty
  | .lit c :: p, s => match s with | x :: s => x == c && matchToks p s | [] => false
  | .one :: p, s => match s with | _ :: s => matchToks p s | [] => false
  | .any :: p, s => anySuffix (matchToks p) s

def like (s pat : Bytes) : Bool := matchToks (parseLikeGo false pat) s

/-! ### comparison of values -/
def Val.cmpLe : Val → Val → Bool
  | .int a, .int b => a ≤ b
  | .str a, .str b => a ≤ b
  | _, _ => false

def Val.cmpLt : Val → Val → Bool
  | .int a, .int b => a < b
  | .str a, .str b => a < b
  | _, _ => false

def cmpOp (o : Oracles) (fn : String) (a b : Val) : Bool :=
  match a, b with
  | .num s, .numLit l => o.isNum s && o.numCmp fn s l
  | _, _ =>
    match fn with
    | "==" => a == b
    | "!=" => a != b
    | "<" => Val.cmpLt a b
    | "<=" => Val.cmpLe a b
    | ">" => Val.cmpLt b a
    | ">=" => Val.cmpLe b a
    | _ => false

/-! ### numbers (C08): Int64/UInt64 values are `.int`, Float64 values are exact rationals `.rat` -/
def Val.toAtom : Val → Atom
  | .int i => .int i | .rat q => .rat q | .str s => .str s | .map m => .map m | _ => .null
def Atom.toVal : Atom → Val
  | .int i => .int i | .rat q => .rat q | .str s => .str s | .map m => .map m | .null => .null

def digitsVal (cs : List Char) : Nat := cs.foldl (fun acc c => acc * 10 + (c.toNat - 48)) 0

/-- the rational a `%f`-style literal `123.456000` denotes -/
def numLitRat (s : String) : Rat :=
  match s.splitOn "." with
  | [i] => (digitsVal i.toList : Int)
  | [i, f] => ((digitsVal i.toList * 10 ^ f.length + digitsVal f.toList : Nat) : Int) / ((10 ^ f.length : Nat) : Int)
  | _ => 0

def Val.toRat? : Val → Option Rat
  | .int i => some i
  | .rat q => some q
  | .numLit s => some (numLitRat s)
  | _ => none

/-- `a * b`: integer product of integers, else the Float64 product -/
def mulVal : Val → Val → Val
  | .int a, .int b => .int (a * b)
  | a, b => match a.toRat?, b.toRat? with
    | some x, some y => .rat (x * y)
    | _, _ => .null

/-- `a / b` is Float64 division; division by zero (inf/nan in ClickHouse) is not a number of the model: null -/
def divVal (a b : Val) : Val :=
  match a.toRat?, b.toRat? with
  | some x, some y => if y = 0 then .null else .rat (x / y)
  | _, _ => .null

/-! ### maps (C07: the labels column rewritten by parsers and `drop`) -/
/-- a Map column; the column of an unmatched ANY LEFT JOIN row has its type's default, the empty map -/
def asMap : Val → List (Bytes × Bytes)
  | .map m => m
  | _ => []

/-- `mapUpdate(a, b)`: the entries of `a` whose key `b` does not have, then all entries of `b` -/
def mapUpdate (a b : List (Bytes × Bytes)) : List (Bytes × Bytes) :=
  a.filter (fun p => !(b.any (fun q => q.1 == p.1))) ++ b

/-- the lambda of `mapDropFilter`: `k != 'a' and (k, v) != ('b', 'c') and …` -/
def dropKeeps (ps : List (Bytes × Bytes)) (kv : Bytes × Bytes) : Bool :=
  ps.all (fun p => if p.2.isEmpty then kv.1 != p.1 else !(kv.1 == p.1 && kv.2 == p.2))

/-- `mapFromArrays(arrayFilter((x,y) -> x != '' AND y != '', names, vals), arrayFilter(…, vals, names))` -/
def regexPairs (names vals : List Bytes) : List (Bytes × Bytes) :=
  (names.zip vals).filter (fun p => !p.1.isEmpty && !p.2.isEmpty)

def pairLe (a b : Bytes × Bytes) : Bool := decide (a.1 < b.1) || (a.1 == b.1 && decide (a.2 ≤ b.2))
/-- `arraySort(arrayZip(mapKeys(m), mapValues(m)))` -/
def sortPairs (m : List (Bytes × Bytes)) : List (Bytes × Bytes) := sortBy pairLe m

/-- tables already evaluated (WITH sub-queries), by alias -/
abbrev Env := List (Alias × Table)

def firstCol (t : Table) : List Val := t.filterMap (fun r => r.head?.map (·.2))

/-! ### expressions -/
mutual
def evalE (o : Oracles) (env : Env) (r : Row) : Expr → Val
  | .raw s => r.get s
  | .numLit s => .numLit s
  | .str s => .str s
  | .int i => .int i
  | .lit s => .str s.toUTF8.toList
  | .col e _ => evalE o env r e
  | .withRef _ => .null
  | .tsLabels => match r.get "time_series.labels" with | .str d => .map (o.jsonLabels d) | _ => .null
  | .isIn l rs =>
    let v := evalE o env r l
    match rs with
    | [.withRef a] => boolVal ((firstCol ((env.lookup a).getD [])).contains v)
    | _ => boolVal ((evalEs o env r rs).contains v)
  | .logical fn cs =>
    if fn = "and" then boolVal (evalAll o env r cs)
    else if fn = "or" then boolVal (evalAny o env r cs)
    else match cs with
      | [x, y] => boolVal (cmpOp o fn (evalE o env r x) (evalE o env r y))
      | _ => .null
  | .not e => boolVal (!(evalE o env r e).truthy)
  | .notNull e => boolVal (match evalE o env r e with | .null => false | .num s => o.isNum s | _ => true)
  | .matchFn c p => match evalE o env r c with | .str s => boolVal (o.reMatch p s) | _ => .null
  | .bitSetAnd _ => .null            -- an aggregate: only meaningful per group (see `evalHaving`)
  | .call fn args =>
    match fn, evalEs o env r args with
    | "like", [.str s, .str p] => boolVal (like s p)
    | "notLike", [.str s, .str p] => boolVal (!like s p)
    | "ilike", [.str s, .str p] => boolVal (like (o.lower s) (o.lower p))
    | "notILike", [.str s, .str p] => boolVal (!like (o.lower s) (o.lower p))
    | "match", [.str s, .str p] => boolVal (o.reMatch p s)
    | "JSONExtractString", [.str d, .str k] => .str (((o.jsonLabels d).lookup k).getD [])
    | "toFloat64OrNull", [.str s] => .num s
    -- ---- added for C08
    | "intDiv", [.int x, .int y] => if y = 0 then .null else .int (Int.tdiv x y)
    | "toFloat64", [v] => match v.toRat? with | some q => .rat q | none => .null
    | "toFloat64OrZero", [.str s] => .rat (o.toFloat s)
    | "toFloat64OrZero", [.null] => .rat 0     -- an absent column of an unmatched ANY LEFT JOIN row has its type's default ('' / {})
    | "cityHash64", [.map m] => .int (o.cityHash m)
    | "length", [.str s] => .int s.length
    -- ---- added for C07 (labels column of the SQL-side pipeline stages)
    | "mapUpdate", [.map a, .map b] => .map (mapUpdate a b)
    | "mapUpdate", [.null, .map b] => .map b
    | _, _ => .null
  | .orderBy e _ => evalE o env r e
  | .sub _ => .null
  -- added for C11 (row-level meaning; aggregates and set operations are evaluated by `Sql.SemG`)
  | .callT fn args =>
    match fn, evalEs o env r args with
    | "match", [.str s, .str p] => boolVal (o.reMatch p s)
    | "toFloat64OrNull", [.str s] => .num s
    | "toFloat64OrZero", [.str s] => .num s      -- only ever compared under `isNotNull(toFloat64OrNull(·)) == 1`
    | "isNotNull", [.num s] => boolVal (o.isNum s)
    | "isNotNull", [.null] => boolVal false
    | "isNotNull", [_] => boolVal true
    | _, _ => .null
  | .bitSet _ _ => .null
  | .setOp _ _ => .null
  | .arrayJoin _ _ => .null
  | .anyIfNum _ => .null
  | .distinct e => evalE o env r e
  | .mulOp x y => mulVal (evalE o env r x) (evalE o env r y)
  | .divOp x y => divVal (evalE o env r x) (evalE o env r y)
  | .mapFilterKeys keep keys m =>
    match evalE o env r m with
    | .map kv => .map (kv.filter (fun p => keys.contains p.1 == keep))
    | _ => .null
  | .mapAt m key => match evalE o env r m with | .map kv => .str ((kv.lookup key).getD []) | _ => .null
  | .tupleAt name i => r.get (name ++ "." ++ toString i)
  | .topkSlice _ _ _ => .null        -- an aggregate: only meaningful per group (`Sql.SemAgg`)
  | .arrayJoinFrom _ _ => .null      -- a FROM clause (`Sql.SemAgg.sourceRowsA`)
  | .fixedLit units scale => .rat ((units : Int) / ((10 ^ scale : Nat) : Int))   -- the number the literal denotes
  | .jsonMap ps => match r.get "string" with
    | .str s => .map (ps.map (fun p => (p.1, o.jsonField s p.2)))
    | _ => .null
  | .regexMap labels re _ => match r.get "string" with
    | .str s => .map (regexPairs labels (o.reCaps re s))
    | _ => .null
  | .mapDrop m ps => .map ((asMap (evalE o env r m)).filter (dropKeeps ps))
  | .labelsFp => match r.get "labels" with
    | .map m => .int (o.cityHash (sortPairs m))
    | _ => .null
  | .quantileAgg _ _ _ => .null      -- an aggregate: only meaningful per group (`Sql.SemAgg`)
def evalEs (o : Oracles) (env : Env) (r : Row) : List Expr → List Val
  | [] => []
  | e :: es => evalE o env r e :: evalEs o env r es
def evalAll (o : Oracles) (env : Env) (r : Row) : List Expr → Bool
  | [] => true
  | e :: es => (evalE o env r e).truthy && evalAll o env r es
def evalAny (o : Oracles) (env : Env) (r : Row) : List Expr → Bool
  | [] => false
  | e :: es => (evalE o env r e).truthy || evalAny o env r es
end

def evalB (o : Oracles) (env : Env) (r : Row) (e : Expr) : Bool := (evalE o env r e).truthy

def optB (o : Oracles) (env : Env) (r : Row) : Option Expr → Bool
  | none => true
  | some e => evalB o env r e

/-! ### the bit-set aggregate -/
def bits : List Bool → Nat
  | [] => 0
  | x :: xs => x.toNat + 2 * bits xs

/-- `bitShiftLeft(toUInt64(c), i)` is 0 from bit 64 on -/
def bits64 (bs : List Bool) : Nat := bits (bs.take 64)

def groupOr (rows : List (List Bool)) : Nat := rows.foldl (fun acc r => acc ||| bits64 r) 0

/-- HAVING over one group: `groupBitOr(Σ bitShiftLeft(cᵢ, i)) == n`, conjunctions thereof -/
def evalHaving (o : Oracles) (env : Env) (grp : List Row) : Expr → Bool
  | .logical "and" [e] => evalHaving o env grp e
  | .logical "==" [.bitSetAnd cs, .int n] =>
    (groupOr (grp.map (fun r => cs.map (evalB o env r))) : Int) == n
  | _ => false

/-! ### rows of a source -/
def qualify (alias : String) (r : Row) : Row :=
  r.map (fun (k, v) => (alias ++ "." ++ k, v)) ++ r

abbrev Db := String → Table

def sourceRows (db : Db) (env : Env) : Expr → Table
  | .raw t => db t
  | .col (.raw t) a => (db t).map (qualify a)
  | .withRef a => ((env.lookup a).getD []).map (qualify a.text)
  | _ => []

/-- name of an output column -/
def colName : Expr → String
  | .col _ a => a
  | .raw s => s
  | _ => ""

def project (o : Oracles) (env : Env) (cols : List Expr) (r : Row) : Row :=
  cols.map (fun c => (colName c, evalE o env r c))

/-- ANY LEFT JOIN: the first right row satisfying ON, else the right columns are absent (defaults) -/
def anyLeftJoin (o : Oracles) (env : Env) (left : Table) (a : Alias) (on : Expr) : Table :=
  let right := ((env.lookup a).getD []).map (fun r => r.map (fun (k, v) => (a.text ++ "." ++ k, v)))
  left.map (fun l => match right.find? (fun rr => evalB o env (l ++ rr) on) with
    | some rr => l ++ rr
    | none => l)

/-! ### ORDER BY: stable sort on the listed keys -/
def rowLe (keys : List (String × Dir)) (a b : Row) : Bool :=
  match keys with
  | [] => true
  | (k, d) :: ks =>
    let x := a.get k; let y := b.get k
    if x == y then rowLe ks a b
    else match d with
      | .asc => Val.cmpLe x y
      | .desc => Val.cmpLe y x

def orderKeys : List Expr → List (String × Dir)
  | [] => []
  | .orderBy (.raw k) d :: es => (k, d) :: orderKeys es
  | _ :: es => orderKeys es

def distinctVals (vs : List Val) : List Val := vs.eraseDups

/-- one SELECT (its own WITH list is ignored: CTEs are evaluated by `evalSel`) -/
def evalBody (o : Oracles) (db : Db) (env : Env) : Sel → Table
  | .mk _ _ cols from_ joins pre wher gb having ob limit =>
    let src := match from_ with | some f => sourceRows db env f | none => []
    let joined := joins.foldl (fun t (j : String × Alias × Expr) => anyLeftJoin o env t j.2.1 j.2.2) src
    let filtered := joined.filter (fun r => optB o env r pre && optB o env r wher)
    let grouped : Table :=
      match gb with
      | [] => filtered.map (project o env cols)
      | g :: _ =>
        let keys := distinctVals (filtered.map (fun r => evalE o env r g))
        (keys.filter (fun k =>
          let grp := filtered.filter (fun r => evalE o env r g == k)
          match having with | some h => evalHaving o env grp h | none => true)).map
          (fun k => [(colName g, k)])
    let ordered := if ob.isEmpty then grouped else sortBy (rowLe (orderKeys ob)) grouped
    match limit with
    | some (.int n) => ordered.take n.toNat
    | _ => ordered

/-- evaluate the WITH list in order, each sub-query seeing the earlier ones -/
def evalWiths (o : Oracles) (db : Db) : Env → List (Alias × Sel) → Env
  | env, [] => env
  | env, (a, s) :: ws => evalWiths o db ((a, evalBody o db env s) :: env) ws

def evalSel (o : Oracles) (db : Db) (s : Sel) : Table :=
  match s with
  | .mk ws d c f j p w g h ob l => evalBody o db (evalWiths o db [] ws) (.mk ws d c f j p w g h ob l)

end Qryn.Sql
