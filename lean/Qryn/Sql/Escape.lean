import Qryn.Base.Bytes
import Qryn.Gen.Escape
import Qryn.Sql.Lex
/-! `sql_select.StringVal.String`: the find/replace table is regenerated from objects.go (`Gen.escapeTable`). -/
namespace Qryn.Sql
open Qryn Qryn.Lex

/-- body of the literal: the replace loop of `StringVal.String` -/
def escapeBody (s : Bytes) : Bytes := escapeWith Gen.escapeTable s

/-- `StringVal.String` -/
def quote (s : Bytes) : Bytes := 39 :: escapeBody s ++ [39]

/-- what one byte becomes -/
def esc1 (c : UInt8) : Bytes := escapeWith Gen.escapeTable [c]

theorem escapeBody_cons (c : UInt8) (s : Bytes) : escapeBody (c :: s) = esc1 c ++ escapeBody s :=
  escapeWith_cons _ _ _

theorem escapeBody_nil : escapeBody [] = [] := escapeWith_nil _

/-- LIKE-level escaping of a needle (after the `fix:` of doLike): `\`, `%`, `_` get a backslash -/
def likeEscape (v : Bytes) : Bytes :=
  v.flatMap (fun c => if c = 92 ∨ c = 37 ∨ c = 95 then [92, c] else [c])

/-- the pattern literal `'%<needle>%'` rendered by doLike -/
def likeLiteral (v : Bytes) : Bytes := quote (37 :: likeEscape v ++ [37])

end Qryn.Sql
