import Qryn.Sql.Segs
/-! Raw SQL text written with `fmt.Sprintf` / string concatenation, as a TEMPLATE: constant pieces and holes.

    Every place where qryn writes SQL text without going through an escaping constructor (the regenerated inventory
    `Gen.RawSqlSites`) has this shape: a Go format string whose verbs are filled with
    * the text `StringVal.String` rendered (request bytes: a `leaf`),
    * the text another SQL object rendered (`sub`),
    * text chosen by the code or the configuration: numbers, counters, table names, aliases, operator names (`closed`),
    * identifier-restricted / generated text placed by the format INSIDE quotes: `labels['%s']`, `toDate('%s')`,
      `unhex('%s')` (`inLit`), or inside back-quotes: `` `%s`.table `` (`inBq`).

    `checkT` decides, from the constant pieces alone, that the template is well formed for every admissible filling:
    it follows the set of lexer states the model lexer can be in. `Proofs/Template.lean` proves it sound. -/
namespace Qryn.Sql
open Qryn Qryn.Lex

inductive Hole
  | leaf     -- escaped request bytes: ANY byte string
  | sub      -- an expression-like segment list (the rendering of a sub-object)
  | closed   -- closed raw text (`rawE`): a number, a name, a constant expression
  | inLit    -- bytes free of quote and backslash, inside a literal the format opens and closes
  | inBq     -- bytes free of back-quote and backslash, inside a back-quoted identifier of the format
deriving DecidableEq, Repr

inductive Piece
  | lit (x : Bytes)
  | hole (i : Nat)
deriving DecidableEq, Repr

inductive Fill
  | leaf (s : Bytes)
  | sub (segs : List Seg)
  | text (x : Bytes)
deriving Repr

/-! ### Go format strings -/

def digitVal (c : UInt8) : Option Nat := if 48 ≤ c ∧ c ≤ 57 then some (c.toNat - 48) else none

/-- the digits of `[n]` up to the closing bracket -/
def parseIndex : Bytes → Nat → Option (Nat × Bytes)
  | 93 :: rest, acc => some (acc, rest)
  | c :: rest, acc => match digitVal c with
    | some d => parseIndex rest (acc * 10 + d)
    | none => none
  | [], _ => none

/-- the verbs qryn uses: `%s %d %f %v`; anything else (`%q`, flags, widths) is refused -/
def isVerb (c : UInt8) : Bool := c = 115 || c = 100 || c = 102 || c = 118

/-- `fmt.Sprintf` format → pieces; `next` = index of the next unindexed argument. `%%` is a literal percent,
    `%[n]v` takes argument n (from 1) and continues with n+1. Fuel = length of the input. -/
def parseFmtAux : Nat → Bytes → Nat → Bytes → Option (List Piece)
  | 0, _, _, _ => none
  | _ + 1, [], _, acc => some (if acc.isEmpty then [] else [.lit acc])
  | fuel + 1, 37 :: 37 :: rest, next, acc => parseFmtAux fuel rest next (acc ++ [37])
  | fuel + 1, 37 :: 91 :: rest, _, acc =>
    match parseIndex rest 0 with
    | some (n, v :: rest') =>
      if isVerb v && n ≥ 1 then
        (parseFmtAux fuel rest' n []).map (fun ps => (if acc.isEmpty then [] else [.lit acc]) ++ .hole (n - 1) :: ps)
      else none
    | _ => none
  | fuel + 1, 37 :: v :: rest, next, acc =>
    if isVerb v then
      (parseFmtAux fuel rest (next + 1) []).map (fun ps => (if acc.isEmpty then [] else [.lit acc]) ++ .hole next :: ps)
    else none
  | _ + 1, [37], _, _ => none
  | fuel + 1, c :: rest, next, acc => parseFmtAux fuel rest next (acc ++ [c])

def parseFmt (f : Bytes) : Option (List Piece) := parseFmtAux (f.length + 1) f 0 []

/-! ### instantiation and the check -/

def fillSegs : Option Fill → List Seg
  | some (.leaf s) => [.str s]
  | some (.sub g) => g
  | some (.text x) => [.raw x]
  | none => []

/-- the segment list of a template whose holes are filled -/
def instT (fills : List Fill) : List Piece → List Seg
  | [] => []
  | .lit x :: rest => .raw x :: instT fills rest
  | .hole i :: rest => fillSegs fills[i]? ++ instT fills rest

/-- the states after one piece, from every state of `qs`; `none`: some state does not admit the piece -/
def stepT (kinds : List Hole) (qs : List St) : Piece → Option (List St)
  | .lit x => if qs.all (fun q => q != .strQ || x.head? != some 39) then some (qs.map (fun q => (run q x).1)) else none
  | .hole i => match kinds[i]? with
    | some .leaf => if qs.all St.safe then some [.strQ] else none
    | some .sub => if qs.all (fun q => q == .normal || q == .word) then some [.normal, .word, .strQ] else none
    | some .closed => if qs.all (fun q => q == .normal || q == .word) then some [.normal, .word, .strQ] else none
    | some .inLit => if qs.all (· == .str) then some [.str] else none
    | some .inBq => if qs.all (· == .bq) then some [.bq] else none
    | none => none

def checkFrom (kinds : List Hole) : List St → List Piece → Bool
  | qs, [] => qs.all (fun q => q == .normal || q == .word || q == .strQ)
  | qs, p :: rest => match stepT kinds qs p with
    | some qs' => checkFrom kinds qs' rest
    | none => false

/-- the template is well formed for every admissible filling, entered between tokens or inside a bareword -/
def checkT (kinds : List Hole) (ps : List Piece) : Bool := checkFrom kinds [.normal, .word] ps

/-- a format string with hole kinds per ARGUMENT: parses, every hole names an argument, and the pieces check -/
def fmtClosed (fmt : Bytes) (kinds : List Hole) : Bool :=
  match parseFmt fmt with
  | some ps => checkT kinds ps
  | none => false

end Qryn.Sql
