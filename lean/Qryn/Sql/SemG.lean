import Qryn.Sql.Sem
/-! Semantics of grouped selects, aggregates in SELECT / HAVING / ORDER BY, ARRAY JOIN and set operations
    of sub-selects — the part of the structured SQL subset the TraceQL planner needs on top of `Sql.Sem`
    (which is left as it is). Documented ClickHouse behaviour relied on:
    * GROUP BY k₁,…: one group per distinct key tuple; HAVING filters groups; aggregates range over the
      rows of the group that passed WHERE;
    * `any(x)` / `anyIf(x, c)`: the first non-NULL value met; `max`; `count(distinct x)`; `uniqExact`;
      `groupArray(100)(x)` the first 100 values, `groupUniqArray(100)(x)` 100 distinct values;
    * `groupBitOr(Σ bitShiftLeft(toUInt64(cᵢ), i)) as a` is computed once per group, `a` names that value,
      `bitAnd(·, k) != 0` tests common bits in 64-bit arithmetic;
    * `avgIf/minIf/maxIf/sumIf(v, isNotNull(v))` see exactly the non-NULL values of `v` in the group; what
      they compute on Float64 and how the result compares with a literal is an oracle (`aggCmp`) shared
      with the direct semantics;
    * `ARRAY JOIN arr [AS x]`: one row per array element, none for an empty array;
    * `UNION ALL` concatenates, `INTERSECT` keeps the rows of the first operand present in all others;
    * a CTE defined inside a sub-select shadows an outer one of the same name.
    Trusted base: this is a model of ClickHouse, not ClickHouse. -/
namespace Qryn.Sql

structure AggOracles where
  /-- aggregate name (`avgIf`, …), the non-NULL Float64 arguments as the texts they were parsed from,
      SQL comparison operator, literal text -/
  aggCmp : String → List Bytes → String → String → Bool

/-- keep the first occurrence of every element -/
def dedup {α} [BEq α] : List α → List α
  | [] => []
  | x :: xs => x :: (dedup xs).filter (fun y => !(y == x))

def firstNonNull (vs : List Val) : Val := (vs.find? (fun v => v != .null)).getD .null

def maxInts : List Val → Option Int
  | [] => none
  | .int i :: vs => (match maxInts vs with | some m => some (max i m) | none => some i)
  | _ :: vs => maxInts vs

def strsOf (vs : List Val) : List Bytes := vs.filterMap (fun v => match v with | .str s => some s | _ => none)

/-- the non-NULL numeric values of a column, as texts: integers by their decimal text, parsed strings by
    the text they were parsed from -/
def aggTexts (o : Oracles) (vs : List Val) : List Bytes :=
  vs.filterMap (fun v => match v with
    | .int i => some (intText i)
    | .num s => if o.isNum s then some s else none
    | _ => none)

/-- an expression of the SELECT list / ORDER BY of a grouped select, over the rows of one group -/
def evalGrp (o : Oracles) (env : Env) (g : List Row) : Expr → Val
  | .col e _ => evalGrp o env g e
  | .call fn [e] =>
    let vs := g.map (fun r => evalE o env r e)
    if fn = "any" then firstNonNull vs
    else if fn = "toFloat64" then firstNonNull vs          -- `toFloat64(duration)`, `duration` = `any(duration)`
    else if fn = "max" then (match maxInts vs with | some m => .int m | none => .null)
    else if fn = "groupArray(100)" then .strs ((strsOf vs).take 100)
    else if fn = "groupUniqArray(100)" then .strs ((dedup (strsOf vs)).take 100)
    else .null
  | .anyIfNum k =>
    (match g.find? (fun r => r.get "key" == .str k && (match r.get "val" with | .str s => o.isNum s | _ => false)) with
     | some r => (match r.get "val" with | .str s => .num s | _ => .null)
     | none => .null)
  | e => (match g with | r :: _ => evalE o env r e | [] => .null)

/-! ### HAVING -/
mutual
/-- the conditions of the (first) `groupBitOr(…) as alias` of a HAVING clause -/
def findBitSet : Expr → Option (List Expr)
  | .bitSet cs _ => some cs
  | .logical _ cs => findBitSetL cs
  | .callT _ cs => findBitSetL cs
  | _ => none
def findBitSetL : List Expr → Option (List Expr)
  | [] => none
  | e :: es => (match findBitSet e with | some cs => some cs | none => findBitSetL es)
end

/-- the 64-bit pattern of an integer literal -/
def u64 (k : Int) : Nat := (k % 18446744073709551616).toNat

def havLeaf (o : Oracles) (ao : AggOracles) (env : Env) (g : List Row) (bs : Nat) (fn : String) : List Expr → Bool
  | [.callT "bitAnd" [.bitSet _ _, .int k], .int 0] => fn == "!=" && (bs &&& u64 k) != 0
  | [.callT "bitAnd" [.raw _, .int k], .int 0] => fn == "!=" && (bs &&& u64 k) != 0
  | [.call "toFloat64" [.call "count" [.distinct e]], .numLit l] =>
    o.numCmp fn (natDigits (dedup (g.map (fun r => evalE o env r e))).length) l
  | [.call "uniqExact" [e], .int n] => fn == "==" && ((dedup (g.map (fun r => evalE o env r e))).length : Int) == n
  | [.call agg [.raw c, .call "isNotNull" [.raw c']], .numLit l] =>
    c == c' && ao.aggCmp agg (aggTexts o (g.map (fun r => r.get c))) fn l
  | _ => false

mutual
def evalHavG (o : Oracles) (ao : AggOracles) (env : Env) (g : List Row) (bs : Nat) : Expr → Bool
  | .logical fn cs =>
    if fn = "and" then evalHavAllG o ao env g bs cs
    else if fn = "or" then evalHavAnyG o ao env g bs cs
    else havLeaf o ao env g bs fn cs
  | _ => false
def evalHavAllG (o : Oracles) (ao : AggOracles) (env : Env) (g : List Row) (bs : Nat) : List Expr → Bool
  | [] => true
  | e :: es => evalHavG o ao env g bs e && evalHavAllG o ao env g bs es
def evalHavAnyG (o : Oracles) (ao : AggOracles) (env : Env) (g : List Row) (bs : Nat) : List Expr → Bool
  | [] => false
  | e :: es => evalHavG o ao env g bs e || evalHavAnyG o ao env g bs es
end

/-- value of the bit-set aggregate of a HAVING clause over one group -/
def bitSetOf (o : Oracles) (env : Env) (g : List Row) (h : Expr) : Nat :=
  match findBitSet h with
  | some cs => groupOr (g.map (fun r => cs.map (evalB o env r)))
  | none => 0

def havingG (o : Oracles) (ao : AggOracles) (env : Env) (g : List Row) : Option Expr → Bool
  | none => true
  | some h => evalHavG o ao env g (bitSetOf o env g h) h

/-! ### sources -/
def arrayJoinRows (src : Table) (arrCol out : String) : Table :=
  src.flatMap (fun r => match r.get arrCol with
    | .strs vs => vs.map (fun v => (out, Val.str v) :: r)
    | _ => [])

def setOpRows (op : String) (ts : List Table) : Table :=
  if op = "UNION ALL" then ts.flatten
  else if op = "INTERSECT" then
    (match ts with
     | [] => []
     | t :: rest => t.filter (fun r => rest.all (fun t' => t'.contains r)))
  else []

/-- ORDER BY key of a group: an output alias refers to that column's expression -/
def orderValG (o : Oracles) (env : Env) (cols : List Expr) (g : List Row) (e : Expr) : Val :=
  match e with
  | .raw n => (match cols.find? (fun c => colName c == n) with
    | some c => evalGrp o env g c
    | none => evalGrp o env g e)
  | _ => evalGrp o env g e

def valLe (d : Dir) (x y : Val) : Bool :=
  match d with
  | .asc => Val.cmpLe x y
  | .desc => Val.cmpLe y x

/-- lexicographic comparison of two groups on the ORDER BY list -/
def grpLe (o : Oracles) (env : Env) (cols : List Expr) : List Expr → List Row → List Row → Bool
  | [], _, _ => true
  | .orderBy e d :: es, a, b =>
    let x := orderValG o env cols a e
    let y := orderValG o env cols b e
    if x == y then grpLe o env cols es a b else valLe d x y
  | _ :: es, a, b => grpLe o env cols es a b

def limitG {α} (limit : Option Expr) (l : List α) : List α :=
  match limit with
  | some (.int n) => l.take n.toNat
  | _ => l

mutual
def sourceRowsG (o : Oracles) (ao : AggOracles) (db : Db) (env : Env) : Expr → Table
  | .raw t => db t
  | .col e a => (sourceRowsG o ao db env e).map (qualify a)
  | .withRef a => ((env.lookup a).getD []).map (qualify a.text)
  | .arrayJoin src arr =>
    let rows := sourceRowsG o ao db env src
    (match arr with
     | .col (.raw c) out => arrayJoinRows rows c out
     | .raw c => arrayJoinRows rows c c
     | _ => [])
  | .setOp op ss => setOpRows op (evalSelsG o ao db env ss)
  | _ => []
/-- one SELECT inside the scope `env`. `own = true`: a statement or sub-select, whose WITH list is
    evaluated first (each CTE seeing the earlier ones); `own = false`: the body of a CTE (its WITH list
    was hoisted into the enclosing statement by `Select.AddWith`). -/
def evalSelG (o : Oracles) (ao : AggOracles) (db : Db) (own : Bool) (env0 : Env) : Sel → Table
  | .mk ws distinct cols from_ joins pre wher gb having ob limit =>
    let env := if own then evalWithsG o ao db env0 ws else env0
    let src := match from_ with | some f => sourceRowsG o ao db env f | none => []
    let joined := joins.foldl (fun t (j : String × Alias × Expr) => anyLeftJoin o env t j.2.1 j.2.2) src
    let filtered := joined.filter (fun r => optB o env r pre && optB o env r wher)
    match gb with
    | [] =>
      let rows := filtered.map (project o env cols)
      let rows := if distinct then dedup rows else rows
      limitG limit (if ob.isEmpty then rows else sortBy (rowLe (orderKeys ob)) rows)
    | _ =>
      let keyOf := fun (r : Row) => gb.map (fun k => evalE o env r k)
      let groups := (dedup (filtered.map keyOf)).map (fun k => filtered.filter (fun r => keyOf r == k))
      let kept := groups.filter (fun g => havingG o ao env g having)
      let ordered := if ob.isEmpty then kept else sortBy (grpLe o env cols ob) kept
      (limitG limit ordered).map (fun g => cols.map (fun c => (colName c, evalGrp o env g c)))
def evalWithsG (o : Oracles) (ao : AggOracles) (db : Db) : Env → List (Alias × Sel) → Env
  | env, [] => env
  | env, (a, s) :: ws => evalWithsG o ao db ((a, evalSelG o ao db false env s) :: env) ws
def evalSelsG (o : Oracles) (ao : AggOracles) (db : Db) (env : Env) : List Sel → List Table
  | [] => []
  | s :: ss => evalSelG o ao db true env s :: evalSelsG o ao db env ss
end

end Qryn.Sql
