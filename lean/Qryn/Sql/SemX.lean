import Qryn.Sql.Sem
/-! `Sql.Sem` with the SELECT aliases visible inside the SELECT (ClickHouse's default,
    `prefer_column_name_to_alias = 0`): an identifier that is the alias of a column expression of the same SELECT
    stands for that expression, in WHERE / PREWHERE and in the other column expressions
    (`cityHash64(…mapKeys(labels)…) as fingerprint` next to `mapUpdate(…) as labels`). One level is modelled: an
    aliased expression is evaluated on the source row, the expressions that use aliases on the source row
    preceded by those values. Aggregating SELECTs (GROUP BY) are evaluated as in `Sql.Sem`. `FROM (cte) as a` is a
    source. Trusted base: a model of ClickHouse, not ClickHouse. -/
namespace Qryn.Sql

def sourceRowsX (db : Db) (env : Env) : Expr → Table
  | .col (.withRef a) al => ((env.lookup a).getD []).map (qualify al)
  | f => sourceRows db env f

/-- what an identifier of a SELECT refers to: the SELECT's aliases first, then the source columns -/
def aliasRow (o : Oracles) (env : Env) (cols : List Expr) (r : Row) : Row := project o env cols r ++ r

def evalBodyX (o : Oracles) (db : Db) (env : Env) : Sel → Table
  | .mk ws dist cols from_ joins pre wher gb having ob limit =>
    match gb with
    | _ :: _ => evalBody o db env (.mk ws dist cols from_ joins pre wher gb having ob limit)
    | [] =>
      let src := match from_ with | some f => sourceRowsX db env f | none => []
      let joined := joins.foldl (fun t (j : String × Alias × Expr) => anyLeftJoin o env t j.2.1 j.2.2) src
      let filtered := joined.filter (fun r => optB o env (aliasRow o env cols r) pre && optB o env (aliasRow o env cols r) wher)
      let rows := filtered.map (fun r => project o env cols (aliasRow o env cols r))
      let ordered := if ob.isEmpty then rows else sortBy (rowLe (orderKeys ob)) rows
      match limit with
      | some (.int n) => ordered.take n.toNat
      | _ => ordered

def evalWithsX (o : Oracles) (db : Db) : Env → List (Alias × Sel) → Env
  | env, [] => env
  | env, (a, s) :: ws => evalWithsX o db ((a, evalBodyX o db env s) :: env) ws

def evalSelX (o : Oracles) (db : Db) (s : Sel) : Table :=
  match s with
  | .mk ws d c f j p w g h ob l => evalBodyX o db (evalWithsX o db [] ws) (.mk ws d c f j p w g h ob l)

end Qryn.Sql
