import Qryn.Sql.Ast
/-! The mutating builder methods of `sql_select.Select` as pure functions. -/
namespace Qryn.Sql

def emptySel : Sel := .mk [] false [] none [] none none [] none [] none

/-! `Select.With` / `AddWith`: withs of the added query are hoisted in front, duplicates by alias dropped -/
def Sel.withs : Sel → List (Alias × Sel)
  | .mk w _ _ _ _ _ _ _ _ _ _ => w

def hasAlias (ws : List (Alias × Sel)) (a : Alias) : Bool := ws.any (fun w => w.1 == a)

def addWith1 (cur : List (Alias × Sel)) (w : Alias × Sel) : List (Alias × Sel) :=
  if hasAlias cur w.1 then cur
  else
    let cur' := w.2.withs.foldl (fun acc w' => if hasAlias acc w'.1 then acc else acc ++ [w']) cur
    cur' ++ [w]

def Sel.setWiths : Sel → List (Alias × Sel) → Sel
  | .mk _ d c f j p w g h o l, ws => .mk ws d c f j p w g h o l

/-- `s.With(ws...)`: reset, then add each -/
def Sel.with_ (s : Sel) (ws : List (Alias × Sel)) : Sel := s.setWiths (ws.foldl addWith1 [])

def Sel.andWhere : Sel → List Expr → Sel
  | .mk ws d c f j p w g h o l, cl => .mk ws d c f j p (some (andCond w cl)) g h o l

def Sel.andPreWhere : Sel → List Expr → Sel
  | .mk ws d c f j p w g h o l, cl => .mk ws d c f j (some (andCond p cl)) w g h o l

def Sel.setOrderBy : Sel → List Expr → Sel
  | .mk ws d c f j p w g h _ l, ob => .mk ws d c f j p w g h ob l

def Sel.setLimit : Sel → Option Expr → Sel
  | .mk ws d c f j p w g h o _, l => .mk ws d c f j p w g h o l

/-! ### further `sql_select.Select` methods (shared by the metric and the TraceQL planner models) -/
def Sel.cols : Sel → List Expr
  | .mk _ _ c _ _ _ _ _ _ _ _ => c
def Sel.setCols : Sel → List Expr → Sel
  | .mk ws d _ f j p w g h o l, c => .mk ws d c f j p w g h o l
def Sel.having : Sel → Option Expr
  | .mk _ _ _ _ _ _ _ _ h _ _ => h
/-- `s.Select(append(s.GetSelect(), cols...)...)` -/
def Sel.addCols : Sel → List Expr → Sel
  | .mk ws d c f j p w g h o l, cs => .mk ws d (c ++ cs) f j p w g h o l
/-- `Select.AndHaving` (same shape as `AndWhere`) -/
def Sel.andHaving : Sel → List Expr → Sel
  | .mk ws d c f j p w g h o l, cl => .mk ws d c f j p w g (some (andCond h cl)) o l

end Qryn.Sql
