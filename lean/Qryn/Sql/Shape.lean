import Qryn.Sql.SegsOf
/-! `shapeE` / `shapeS`: a `sql_select` model tree with the CONTENTS of its string leaves emptied (`StringVal`s, match
    patterns, map keys, json labels and path names, regexp names and pattern, drop names and values — a non-empty drop
    value stays non-empty: the renderer branches on it). Two trees with the same shape render to segment lists that agree
    once the leaves are emptied (`Proofs/Shape.lean`), hence — when well formed — to statements with the same token
    structure. -/
namespace Qryn.Sql
open Qryn

def shapeJArg : JArg → JArg
  | .key _ => .key []
  | .idx i => .idx i

mutual
def shapeE : Expr → Expr
  | .raw s => .raw s
  | .str _ => .str []
  | .int i => .int i
  | .col e a => .col (shapeE e) a
  | .withRef a => .withRef a
  | .lit s => .lit s
  | .tsLabels => .tsLabels
  | .numLit s => .numLit s
  | .isIn l r => .isIn (shapeE l) (shapeEs r)
  | .logical fn cs => .logical fn (shapeEs cs)
  | .not e => .not (shapeE e)
  | .notNull e => .notNull (shapeE e)
  | .matchFn c _ => .matchFn (shapeE c) []
  | .bitSetAnd cs => .bitSetAnd (shapeEs cs)
  | .call fn args => .call fn (shapeEs args)
  | .orderBy e d => .orderBy (shapeE e) d
  | .sub s => .sub (shapeS s)
  | .callT fn args => .callT fn (shapeEs args)
  | .bitSet cs a => .bitSet (shapeEs cs) a
  | .setOp op ss => .setOp op (shapeSs ss)
  | .arrayJoin src arr => .arrayJoin (shapeE src) (shapeE arr)
  | .anyIfNum _ => .anyIfNum []
  | .distinct e => .distinct (shapeE e)
  | .mulOp x y => .mulOp (shapeE x) (shapeE y)
  | .divOp x y => .divOp (shapeE x) (shapeE y)
  | .mapFilterKeys keep keys m => .mapFilterKeys keep (keys.map (fun _ => [])) (shapeE m)
  | .mapAt m _ => .mapAt (shapeE m) []
  | .tupleAt name i => .tupleAt name i
  | .topkSlice isTop hasLabels k => .topkSlice isTop hasLabels k
  | .arrayJoinFrom src arr => .arrayJoinFrom (shapeE src) (shapeE arr)
  | .fixedLit units scale => .fixedLit units scale
  | .jsonMap ps => .jsonMap (ps.map (fun p => ([], p.2.map shapeJArg)))
  | .regexMap labels _ id => .regexMap (labels.map (fun _ => [])) [] id
  | .mapDrop m ps => .mapDrop (shapeE m) (ps.map (fun p => ([], if p.2.isEmpty then [] else [0])))
  | .labelsFp => .labelsFp
  | .quantileAgg units scale col => .quantileAgg units scale col
def shapeEs : List Expr → List Expr
  | [] => []
  | e :: es => shapeE e :: shapeEs es
def shapeSs : List Sel → List Sel
  | [] => []
  | s :: ss => shapeS s :: shapeSs ss
def shapeWs : List (Alias × Sel) → List (Alias × Sel)
  | [] => []
  | (a, s) :: ws => (a, shapeS s) :: shapeWs ws
def shapeJs : List (String × Alias × Expr) → List (String × Alias × Expr)
  | [] => []
  | (tp, tbl, on) :: js => (tp, tbl, shapeE on) :: shapeJs js
def shapeO : Option Expr → Option Expr
  | some e => some (shapeE e)
  | none => none
def shapeS : Sel → Sel
  | .mk withs distinct cols from_ joins pre wher gb having ob limit =>
    .mk (shapeWs withs) distinct (shapeEs cols) (shapeO from_) (shapeJs joins) (shapeO pre) (shapeO wher) (shapeEs gb) (shapeO having)
      (shapeEs ob) (shapeO limit)
end

end Qryn.Sql
