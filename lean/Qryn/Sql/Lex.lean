import Qryn.Base.Bytes
/-! A byte-driven model of ClickHouse's lexer (src/Parsers/Lexer.cpp) at the granularity C10 needs:
    string literals with backslash escapes, `\xHH` and `''` doubling; double-quoted and back-quoted
    identifiers; barewords/numbers; `--` and `/* */` comments; single-byte punctuation.
    The lexer is a transducer `step : St → UInt8 → St × List Ev`; tokens are assembled from events. -/
namespace Qryn.Lex

inductive St
  | normal
  | word                      -- inside a bareword / number
  | str | strEsc | strHex1 | strHex2 (h : UInt8) | strQ    -- '...' ; strQ = just saw a quote inside a literal
  | dq | dqEsc | bq | bqEsc   -- "..." and `...`
  | minus | slash             -- saw '-' / '/'
  | lineComment | blockComment | blockStar
deriving DecidableEq, Repr

inductive Ev
  | sOpen | sByte (c : UInt8) | sClose
  | wByte (c : UInt8) | wEnd
  | qOpen (q : UInt8) | qByte (c : UInt8) | qClose
  | p (c : UInt8)
  | err
deriving DecidableEq, Repr

def isWordByte (c : UInt8) : Bool :=
  (48 ≤ c && c ≤ 57) || (65 ≤ c && c ≤ 90) || (97 ≤ c && c ≤ 122) || c = 95 || c = 36 || c = 46 || c ≥ 128

def isSpace (c : UInt8) : Bool := c = 32 || c = 9 || c = 10 || c = 13 || c = 12 || c = 11 || c = 0

def hexNib (c : UInt8) : Option UInt8 :=
  if 48 ≤ c ∧ c ≤ 57 then some (c - 48)
  else if 97 ≤ c ∧ c ≤ 102 then some (c - 87)
  else if 65 ≤ c ∧ c ≤ 70 then some (c - 55) else none

/-- what a backslash followed by `c` decodes to inside a quoted token (ReadHelpers
    `parseComplexEscapeSequence`): known escapes decode, unknown ones keep the backslash. -/
def unescape (c : UInt8) : List UInt8 :=
  if c = 92 then [92] else if c = 39 then [39] else if c = 34 then [34] else if c = 96 then [96]
  else if c = 47 then [47] else if c = 61 then [61]
  else if c = 48 then [0] else if c = 97 then [7] else if c = 98 then [8] else if c = 101 then [27]
  else if c = 102 then [12] else if c = 110 then [10] else if c = 114 then [13] else if c = 116 then [9]
  else if c = 118 then [11] else [92, c]

/-- a byte seen in the `normal` state -/
def stepNormal (c : UInt8) : St × List Ev :=
  if c = 39 then (.str, [.sOpen])
  else if c = 34 then (.dq, [.qOpen 34])
  else if c = 96 then (.bq, [.qOpen 96])
  else if c = 45 then (.minus, [])
  else if c = 47 then (.slash, [])
  else if isWordByte c then (.word, [.wByte c])
  else if isSpace c then (.normal, [])
  else (.normal, [.p c])

def step (q : St) (c : UInt8) : St × List Ev :=
  match q with
  | .normal => stepNormal c
  | .word => if isWordByte c then (.word, [.wByte c]) else
      let (q', ev) := stepNormal c; (q', .wEnd :: ev)
  | .str => if c = 39 then (.strQ, []) else if c = 92 then (.strEsc, []) else (.str, [.sByte c])
  | .strEsc => if c = 120 then (.strHex1, []) else (.str, (unescape c).map .sByte)
  | .strHex1 => match hexNib c with
      | some h => (.strHex2 h, [])
      | none => (.str, [.err])
  | .strHex2 h => match hexNib c with
      | some l => (.str, [.sByte (h * 16 + l)])
      | none => (.str, [.err])
  | .strQ => if c = 39 then (.str, [.sByte 39]) else
      let (q', ev) := stepNormal c; (q', .sClose :: ev)
  | .dq => if c = 34 then (.normal, [.qClose]) else if c = 92 then (.dqEsc, []) else (.dq, [.qByte c])
  | .dqEsc => (.dq, (unescape c).map .qByte)
  | .bq => if c = 96 then (.normal, [.qClose]) else if c = 92 then (.bqEsc, []) else (.bq, [.qByte c])
  | .bqEsc => (.bq, (unescape c).map .qByte)
  | .minus => if c = 45 then (.lineComment, []) else
      let (q', ev) := stepNormal c; (q', .p 45 :: ev)
  | .slash => if c = 42 then (.blockComment, []) else
      let (q', ev) := stepNormal c; (q', .p 47 :: ev)
  | .lineComment => if c = 10 then (.normal, []) else (.lineComment, [])
  | .blockComment => if c = 42 then (.blockStar, []) else (.blockComment, [])
  | .blockStar => if c = 47 then (.normal, []) else if c = 42 then (.blockStar, []) else (.blockComment, [])

def run (q : St) : Bytes → St × List Ev
  | [] => (q, [])
  | c :: s => let (q', e) := step q c; let (q'', es) := run q' s; (q'', e ++ es)

/-- events emitted when the input ends in state `q` -/
def flush : St → List Ev
  | .normal | .lineComment => []
  | .word => [.wEnd]
  | .strQ => [.sClose]
  | .minus => [.p 45]
  | .slash => [.p 47]
  | _ => [.err]     -- unterminated literal / identifier / block comment

def lexEv (s : Bytes) : List Ev := let (q, es) := run .normal s; es ++ flush q

theorem run_append (q : St) (a b : Bytes) :
    run q (a ++ b) = ((run (run q a).1 b).1, (run q a).2 ++ (run (run q a).1 b).2) := by
  induction a generalizing q with
  | nil => simp [run]
  | cons c a ih => simp [run, ih, List.append_assoc]

/-! ### tokens -/
inductive Tok
  | str (s : Bytes) | word (s : Bytes) | quoted (q : UInt8) (s : Bytes) | punct (c : UInt8) | err
deriving DecidableEq, Repr

/-- assemble events into tokens; `cur` is the token being built -/
def assemble : Option Tok → List Ev → List Tok
  | cur, [] => match cur with | some t => [t] | none => []
  | cur, e :: es =>
    match e, cur with
    | .sOpen, _ => assemble (some (.str [])) es
    | .sByte c, some (.str s) => assemble (some (.str (s ++ [c]))) es
    | .sByte _, cur => assemble cur es        -- only after an `err` inside a literal; already flagged
    | .sClose, some (.str s) => .str s :: assemble none es
    | .wByte c, some (.word s) => assemble (some (.word (s ++ [c]))) es
    | .wByte c, _ => assemble (some (.word [c])) es
    | .wEnd, some (.word s) => .word s :: assemble none es
    | .qOpen q, _ => assemble (some (.quoted q [])) es
    | .qByte c, some (.quoted q s) => assemble (some (.quoted q (s ++ [c]))) es
    | .qClose, some (.quoted q s) => .quoted q s :: assemble none es
    | .p c, _ => .punct c :: assemble none es
    | _, _ => .err :: assemble none es

def lex (s : Bytes) : List Tok := assemble none (lexEv s)

/-- the *structure* of a statement: tokens with the contents of string literals erased -/
def Tok.kind : Tok → Tok
  | .str _ => .str []
  | t => t

def kinds (s : Bytes) : List Tok := (lex s).map Tok.kind

/-- states from which an opening quote starts a fresh string literal -/
def St.safe : St → Bool
  | .normal | .word | .minus | .slash => true
  | _ => false

end Qryn.Lex
