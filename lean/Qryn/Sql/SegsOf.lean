import Qryn.Sql.Ast
import Qryn.Sql.Segs
/-! The rendering of the `sql_select` model as a segment list: raw text written by the planners and the
    string leaves that go through the escape (`Expr.str`, the pattern of `Expr.matchFn`). Mirrors `render…`
    clause by clause; `Proofs/SegsOf.lean` shows `renderSegs (segsSel s) = renderSel s`. -/
namespace Qryn.Sql
open Qryn

def joinS (sep : Bytes) : List (List Seg) → List Seg
  | [] => []
  | [x] => x
  | x :: y :: xs => x ++ [.raw sep] ++ joinS sep (y :: xs)

/-- the text of `Expr.topkSlice` (no leaf) -/
def topkText (isTop hasLabels : Bool) (k : Nat) : Bytes :=
  b "arraySlice(arraySort(" ++
    (if isTop then b "x -> (-x.1, x.2" ++ (if hasLabels then b ", x.3" else []) ++ b ")," else []) ++
    b "groupArray((par_a.value, par_a.fingerprint" ++ (if hasLabels then b ", par_a.labels" else []) ++ b "))), 1, " ++
    natDigits k ++ b ")"

/-! segments of the leaf-like nodes of the SQL-side LogQL stages (json with parameters, regexp, drop) -/
def jargSegs : JArg → List Seg
  | .key k => [.str k]
  | .idx i => [.raw (intText i)]

def jsonGetSegs (path : List JArg) : List Seg :=
  let p := joinS (b ",") (path.map jargSegs)
  [.raw (b "if(JSONType(string, ")] ++ p ++ [.raw (b ") == 'String', JSONExtractString(string, ")] ++ p ++
    [.raw (b "), JSONExtractRaw(string, ")] ++ p ++ [.raw (b "))")]

def jsonMapSegs (ps : List (Bytes × List JArg)) : List Seg :=
  [.raw (b "mapFromArrays([")] ++ joinS (b ",") (ps.map (fun p => [.str p.1])) ++ [.raw (b "], [")] ++
    joinS (b ",") (ps.map (fun p => jsonGetSegs p.2)) ++ [.raw (b "])")]

def regexMid (id : Nat) : Bytes :=
  b "] as re_lbls_" ++ natDigits id ++ b ",  arrayMap(x -> x[length(x)], extractAllGroupsHorizontal(string, "
def regexPost (id : Nat) : Bytes :=
  b ")) as re_vals_" ++ natDigits id ++ b "),arrayFilter((x,y) -> x != '' AND y != '', re_vals_" ++ natDigits id ++
    b ", re_lbls_" ++ natDigits id ++ b "))"

def regexMapSegs (labels : List Bytes) (re : Bytes) (id : Nat) : List Seg :=
  [.raw (b "mapFromArrays(arrayFilter( (x,y) -> x != '' AND y != '',  [")] ++ joinS (b ",") (labels.map (fun l => [.str l])) ++
    [.raw (regexMid id), .str re, .raw (regexPost id)]

def dropClauseSegs (p : Bytes × Bytes) : List Seg :=
  if p.2.isEmpty then [.raw (b "k!="), .str p.1] else [.raw (b "(k, v)!=("), .str p.1, .raw (b ", "), .str p.2, .raw (b ")")]

mutual
def segsExpr : Expr → List Seg
  | .raw s => [.raw (b s)]
  | .str s => [.str s]
  | .int i => [.raw (intText i)]
  | .col e a => if a.isEmpty then segsExpr e else segsExpr e ++ [.raw (b " as " ++ b a)]
  | .withRef a => [.raw (b a.text)]
  | .lit s => [.raw (b "'" ++ b s ++ b "'")]
  | .tsLabels => [.raw (b tsLabelsText)]
  | .numLit s => [.raw (b s)]
  | .isIn l r => segsExpr l ++ [.raw (b " IN (")] ++ joinS (b ",") (segsExprs r) ++ [.raw (b ")")]
  | .logical fn cs => joinS (b " " ++ b fn ++ b " ") (segsParens cs)
  | .not e => [.raw (b "!(")] ++ segsExpr e ++ [.raw (b ")")]
  | .notNull e => segsExpr e ++ [.raw (b " IS NOT NULL")]
  | .matchFn c p => [.raw (b "match(")] ++ segsExpr c ++ [.raw (b ", "), .str p, .raw (b ")")]
  | .bitSetAnd cs => [.raw (b "groupBitOr(")] ++ joinS (b " + ") (segsShift 0 cs) ++ [.raw (b ")")]
  | .call fn args => [.raw (b fn ++ b "(")] ++ joinS (b ", ") (segsExprs args) ++ [.raw (b ")")]
  | .orderBy e d => segsExpr e ++ [.raw (match d with | .asc => b " asc" | .desc => b " desc")]
  | .sub s => segsSel s
  | .callT fn args => [.raw (b fn ++ b "(")] ++ joinS (b ",") (segsExprs args) ++ [.raw (b ")")]
  | .bitSet cs a => [.raw (b "groupBitOr(")] ++ joinS (b "+") (segsShiftT 0 cs) ++
      [.raw (b ")" ++ (if a.isEmpty then [] else b " as " ++ b a))]
  | .setOp op ss => [.raw (b "(")] ++ joinS (b " " ++ b op ++ b " ") (segsSels ss) ++ [.raw (b ")")]
  | .arrayJoin src arr => segsExpr src ++ [.raw (b " array JOIN ")] ++ segsExpr arr ++ [.raw (b " ")]
  | .anyIfNum k => [.raw (b "anyIf(toFloat64OrNull(val), key == "), .str k, .raw (b ")")]
  | .distinct e => [.raw (b "distinct ")] ++ segsExpr e
  | .mulOp x y => segsExpr x ++ [.raw (b " * ")] ++ segsExpr y
  | .divOp x y => segsExpr x ++ [.raw (b " / ")] ++ segsExpr y
  | .mapFilterKeys keep keys m =>
    if keep && keys.isEmpty then [.raw (b "mapFilter((k,v) -> 0, ")] ++ segsExpr m ++ [.raw (b ")")]
    else
    [.raw (b "mapFilter((k,v) -> k " ++ b (if keep then "IN" else "NOT IN") ++ b " (")] ++
      joinS (b ",") (keys.map (fun k => [.str k])) ++ [.raw (b "), ")] ++ segsExpr m ++ [.raw (b ")")]
  | .mapAt m key => segsExpr m ++ [.raw (b "["), .str key, .raw (b "]")]
  | .tupleAt name i => [.raw (b name ++ b "." ++ natDigits i)]
  | .topkSlice isTop hasLabels k => [.raw (topkText isTop hasLabels k)]
  | .arrayJoinFrom src arr => segsExpr src ++ [.raw (b " array JOIN ")] ++ segsExpr arr ++ [.raw (b " ")]
  | .fixedLit units scale => [.raw (b (fixedText units scale))]
  | .jsonMap ps => jsonMapSegs ps
  | .regexMap labels re id => regexMapSegs labels re id
  | .mapDrop m ps => [.raw (b "mapFilter((k,v) -> ")] ++ joinS (b " and ") (ps.map dropClauseSegs) ++ [.raw (b ", ")] ++ segsExpr m ++ [.raw (b ")")]
  | .labelsFp => [.raw (b labelsFpText)]
  | .quantileAgg units scale col => [.raw (b "quantile(" ++ b (fixedText units scale) ++ b ")(" ++ b col ++ b ")")]
def segsSels : List Sel → List (List Seg)
  | [] => []
  | s :: ss => segsSel s :: segsSels ss
def segsExprs : List Expr → List (List Seg)
  | [] => []
  | o :: os => segsExpr o :: segsExprs os
def segsParens : List Expr → List (List Seg)
  | [] => []
  | o :: os => ([.raw (b "(")] ++ segsExpr o ++ [.raw (b ")")]) :: segsParens os
def segsShift (i : Nat) : List Expr → List (List Seg)
  | [] => []
  | o :: os => ([.raw (b "bitShiftLeft(toUInt64(")] ++ segsExpr o ++ [.raw (b "), " ++ natDigits i ++ b ")")]) :: segsShift (i + 1) os
def segsShiftT (i : Nat) : List Expr → List (List Seg)
  | [] => []
  | o :: os => ([.raw (b "bitShiftLeft(toUInt64(")] ++ segsExpr o ++ [.raw (b ")," ++ natDigits i ++ b ")")]) :: segsShiftT (i + 1) os
def segsWiths : List (Alias × Sel) → List (List Seg)
  | [] => []
  | (a, s) :: ws => ([.raw (b a.text ++ b " as (")] ++ segsSelBody s ++ [.raw (b ")")]) :: segsWiths ws
def segsJoins : List (String × Alias × Expr) → List Seg
  | [] => []
  | (tp, tbl, on) :: js => [.raw (b " " ++ b tp ++ b " JOIN " ++ b tbl.text ++ b " ON ")] ++ segsExpr on ++ segsJoins js
def segsSelBody : Sel → List Seg
  | .mk _ distinct cols from_ joins pre wher gb having ob limit =>
    [.raw (b " SELECT " ++ (if distinct then b " DISTINCT " else []))] ++ joinS (b ", ") (segsExprs cols) ++
    (match from_ with | some f => [.raw (b " FROM ")] ++ segsExpr f ++ segsJoins joins | none => []) ++
    (match pre with | some p => [.raw (b " PREWHERE ")] ++ segsExpr p | none => []) ++
    (match wher with | some p => [.raw (b " WHERE ")] ++ segsExpr p | none => []) ++
    (if gb.isEmpty then [] else [.raw (b " GROUP BY ")] ++ joinS (b ", ") (segsExprs gb)) ++
    (match having with | some p => [.raw (b " HAVING ")] ++ segsExpr p | none => []) ++
    (if ob.isEmpty then [] else [.raw (b " ORDER BY ")] ++ joinS (b ", ") (segsExprs ob)) ++
    (match limit with | some l => [.raw (b " LIMIT ")] ++ segsExpr l | none => [])
def segsSel : Sel → List Seg
  | .mk withs distinct cols from_ joins pre wher gb having ob limit =>
    (if withs.isEmpty then [] else [.raw (b "WITH ")] ++ joinS (b ",") (segsWiths withs)) ++
    segsSelBody (.mk withs distinct cols from_ joins pre wher gb having ob limit)
end

end Qryn.Sql
