/-! C14: the column lists of `sql.Select` objects as a HEAP of Go slices.

    `reader/utils/sql_select/select.go`: `Select(cols ...SQLObject)` stores the variadic slice AS IS (`s.columns = cols`)
    and `GetSelect()` hands the same slice out again; `GroupBy`, `OrderBy`, `Join` do the same. The planners pass these
    lists from one to the next (`cols := main.GetSelect()`), patch them in place (`cols[i] = …`, `LRAPlanner.Process`) and
    append to them (`req.Select(append(req.GetSelect(), c)...)` — in place whenever the backing array has room). The pure
    planner models of C07/C08/C11 build statements as VALUES: nothing is shared by construction. This module makes the
    sharing explicit, so that "nothing is shared between two translations" becomes a hypothesis that can be tied to the
    source (`Gen.PlannerGlobalFlows`, `Gen.PlannerListWrites`) instead of an assumption of the modelling style.

    * a backing array is a heap cell: the initialised elements and the capacity;
    * a slice value is (address, length); registers (local variables) and plan objects (`Select.columns`) hold slices;
    * a translation is a program: allocate a list, take a package-level list, store into / load from a plan object,
      write in place, map in place, `append` with Go's capacity rule, copy, branch on what a list holds, render a plan;
    * registers and plan objects are created by the translation (they start empty); the heap persists over the process.

    `Qryn/Proofs/PlanHeap.lean` proves the frame/simulation theorem, `Props/C14.lean` states what it means. -/
namespace Qryn.PlanHeap

/-- function update -/
def upd {β : Type} (f : Nat → β) (k : Nat) (v : β) : Nat → β := fun x => if x = k then v else f x

@[simp] theorem upd_same {β : Type} (f : Nat → β) (k : Nat) (v : β) : upd f k v k = v := by simp [upd]
theorem upd_other {β : Type} (f : Nat → β) (k : Nat) (v : β) (x : Nat) (h : x ≠ k) : upd f k v x = f x := by simp [upd, h]

/-- a Go slice value: the address of its backing array and its length (the capacity belongs to the array) -/
structure Slice where
  ref : Nat
  len : Nat
deriving DecidableEq, Repr

/-- a backing array: the elements written so far and the capacity (`data.length ≤ cap` for arrays the programs build) -/
structure Cell (α : Type) where
  data : List α
  cap : Nat
deriving DecidableEq, Repr

/-- the heap of backing arrays: contents by address and the allocation pointer (addresses below `next` are in use) -/
structure Heap (α : Type) where
  cell : Nat → Cell α
  next : Nat

namespace Heap
variable {α : Type}
/-- a new array at address `h.next` -/
def alloc (h : Heap α) (c : Cell α) : Heap α := ⟨upd h.cell h.next c, h.next + 1⟩
/-- overwrite the array at `a` -/
def put (h : Heap α) (a : Nat) (c : Cell α) : Heap α := ⟨upd h.cell a c, h.next⟩
/-- what a slice shows -/
def view (h : Heap α) (s : Slice) : List α := (h.cell s.ref).data.take s.len
end Heap

abbrev Reg := Nat
abbrev PlanId := Nat

/-- one step of a translation -/
inductive Instr (α : Type)
  /-- `dst := []T{xs…}` / `make` + fill: a NEW backing array (capacity = length + `spare`) -/
  | lit (dst : Reg) (xs : List α) (spare : Nat)
  /-- `dst := g`, the `g`-th package-level slice -/
  | pkg (dst : Reg) (g : Nat)
  /-- `p.Select(src...)`: the plan object keeps the slice as is (an unbound register is the nil slice) -/
  | store (p : PlanId) (src : Reg)
  /-- `dst := p.GetSelect()` -/
  | load (dst : Reg) (p : PlanId)
  /-- `r[i] = v` (out of range: the Go code would fault; nothing is written here) -/
  | setAt (r : Reg) (i : Nat) (v : α)
  /-- `for i, c := range r { r[i] = f(c) }` — `LRAPlanner.Process` renames the column `string` this way -/
  | mapAt (r : Reg) (f : α → α)
  /-- `dst := append(src, v)`: written INTO the backing array of `src` when its capacity allows, else a copy
      (capacity = new length + `spare`) -/
  | append (dst src : Reg) (v : α) (spare : Nat)
  /-- `dst := append([]T(nil), src...)` / `patchCol`: a new array with the same elements -/
  | copy (dst src : Reg)
  /-- the statement is rendered: the column list of `p` goes to the output -/
  | emit (p : PlanId)

/-- a translation: instructions, with control flow that may depend on what a list holds -/
inductive Prog (α : Type)
  | done
  | step (i : Instr α) (k : Prog α)
  | branch (r : Reg) (c : List α → Bool) (t e : Prog α)

structure St (α : Type) where
  heap : Heap α
  regs : Reg → Option Slice
  plans : PlanId → Option Slice
  out : List (List α)

variable {α : Type}

def mapPrefix (f : α → α) (n : Nat) (xs : List α) : List α := (xs.take n).map f ++ xs.drop n
/-- `append` in place: index `i` of the array is overwritten, or initialised when it is the first unused one -/
def setOrPush (xs : List α) (i : Nat) (v : α) : List α := if i < xs.length then xs.set i v else xs ++ [v]

/-- one instruction; `G` = the package-level slices -/
def exec (G : List Slice) (st : St α) : Instr α → St α
  | .lit dst xs spare =>
    { st with heap := st.heap.alloc ⟨xs, xs.length + spare⟩, regs := upd st.regs dst (some ⟨st.heap.next, xs.length⟩) }
  | .pkg dst g => { st with regs := upd st.regs dst G[g]? }
  | .store p src => { st with plans := upd st.plans p (st.regs src) }
  | .load dst p => { st with regs := upd st.regs dst (st.plans p) }
  | .setAt r i v =>
    match st.regs r with
    | some s =>
      if i < s.len then
        { st with heap := st.heap.put s.ref ⟨(st.heap.cell s.ref).data.set i v, (st.heap.cell s.ref).cap⟩ }
      else st
    | none => st
  | .mapAt r f =>
    match st.regs r with
    | some s => { st with heap := st.heap.put s.ref ⟨mapPrefix f s.len (st.heap.cell s.ref).data, (st.heap.cell s.ref).cap⟩ }
    | none => st
  | .append dst src v spare =>
    match st.regs src with
    | some s =>
      if s.len < (st.heap.cell s.ref).cap then
        { st with heap := st.heap.put s.ref ⟨setOrPush (st.heap.cell s.ref).data s.len v, (st.heap.cell s.ref).cap⟩,
                  regs := upd st.regs dst (some ⟨s.ref, s.len + 1⟩) }
      else
        { st with heap := st.heap.alloc ⟨st.heap.view s ++ [v], s.len + 1 + spare⟩,
                  regs := upd st.regs dst (some ⟨st.heap.next, s.len + 1⟩) }
    | none => -- a nil slice: `append` allocates
      { st with heap := st.heap.alloc ⟨[v], 1 + spare⟩, regs := upd st.regs dst (some ⟨st.heap.next, 1⟩) }
  | .copy dst src =>
    match st.regs src with
    | some s => { st with heap := st.heap.alloc ⟨st.heap.view s, s.len⟩, regs := upd st.regs dst (some ⟨st.heap.next, s.len⟩) }
    | none => { st with regs := upd st.regs dst none }
  | .emit p =>
    match st.plans p with
    | some s => { st with out := st.out ++ [st.heap.view s] }
    | none => { st with out := st.out ++ [[]] }

def run (G : List Slice) : Prog α → St α → St α
  | .done, st => st
  | .step i k, st => run G k (exec G st i)
  | .branch r c t e, st =>
    match st.regs r with
    | some s => if c (st.heap.view s) then run G t st else run G e st
    | none => run G e st

/-- one translation in a process whose heap is `h`: fresh registers, fresh plan objects; returns the heap it leaves and
    the rendered column lists -/
def translate (G : List Slice) (h : Heap α) (p : Prog α) : Heap α × List (List α) :=
  let st := run G p ⟨h, fun _ => none, fun _ => none, []⟩
  (st.heap, st.out)

/-- translations one after the other in the same process -/
def runSeq (G : List Slice) (h : Heap α) : List (Prog α) → List (List (List α))
  | [] => []
  | p :: ps => (translate G h p).2 :: runSeq G (translate G h p).1 ps

/-- the heap after a sequence of translations -/
def heapAfter (G : List Slice) (h : Heap α) : List (Prog α) → Heap α
  | [] => h
  | p :: ps => heapAfter G (translate G h p).1 ps

/-! ## the discipline: a package-level list is only ever READ

    `t r = true`: register `r` may hold a package-level slice. Such a register may be copied from, branched on — never
    stored into a plan object, written through or appended to. Plan objects then only ever hold lists allocated by the
    running translation, so `load` yields an untainted register. This is what the two regenerated facts check on the
    source: `Gen.plannerGlobalsIntoPlan` (no package-level reference value is handed on) and `Gen.plannerInPlaceWrites`
    (every in-place write goes to a list obtained from a plan object's getter or allocated locally). -/
def Instr.ok (t : Reg → Bool) : Instr α → Bool × (Reg → Bool)
  | .lit dst _ _ => (true, upd t dst false)
  | .pkg dst _ => (true, upd t dst true)
  | .store _ src => (!t src, t)
  | .load dst _ => (true, upd t dst false)
  | .setAt r _ _ => (!t r, t)
  | .mapAt r _ => (!t r, t)
  | .append dst src _ _ => (!t src, upd t dst false)
  | .copy dst _ => (true, upd t dst false)
  | .emit _ => (true, t)

def Prog.disciplinedFrom (t : Reg → Bool) : Prog α → Bool
  | .done => true
  | .step i k => (i.ok t).1 && k.disciplinedFrom (i.ok t).2
  | .branch _ _ a b => a.disciplinedFrom t && b.disciplinedFrom t

/-- every list stored into a plan object, written through or appended to was allocated by this translation -/
def Prog.Disciplined (p : Prog α) : Prop := p.disciplinedFrom (fun _ => false) = true

instance (p : Prog α) : Decidable p.Disciplined := inferInstanceAs (Decidable (_ = true))

/-- straight-line programs -/
def Prog.ofList : List (Instr α) → Prog α
  | [] => .done
  | i :: is => .step i (Prog.ofList is)

end Qryn.PlanHeap
