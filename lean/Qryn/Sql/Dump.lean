import Qryn.Sql.Ast
import Qryn.Sql.Lex
/-! Reader for the reflection dump of real `sql_select` object trees (harness/sqldump) and its conversion
    into the SQL AST. This is the *structural* tie: the statement the real planner built — not a model of
    the planner — becomes a `Sel` on which `renderSel` (must reproduce the real text byte for byte) and
    `evalSel` (its meaning) are run. Node kinds the converter does not know become `.raw` leaves holding
    nothing, and the render comparison then fails — fail closed. -/
namespace Qryn.Sql.Dump
open Qryn Qryn.Sql

inductive SX
  | node (name : String) (fields : List (String × SX))
  | list (xs : List SX)
  | str (b : Bytes)
  | int (i : Int)
  | bool (b : Bool)
  | float (s : String)
  | nil
  | func
deriving Repr, Inhabited

/-! ### tokens: split on spaces, parentheses and brackets -/
def tokenize (s : String) : List String :=
  let step (acc : List String × String) (c : Char) : List String × String :=
    if c = '(' ∨ c = ')' ∨ c = '[' ∨ c = ']' then
      ((if acc.2.isEmpty then acc.1 else acc.2 :: acc.1) |> (String.singleton c :: ·), "")
    else if c = ' ' ∨ c = '\n' ∨ c = '\t' ∨ c = '\r' then ((if acc.2.isEmpty then acc.1 else acc.2 :: acc.1), "")
    else (acc.1, acc.2.push c)
  let (ts, cur) := s.toList.foldl step ([], "")
  (if cur.isEmpty then ts else cur :: ts).reverse

def atom (t : String) : Option SX :=
  if t = "nil" then some .nil
  else if t = "func" then some .func
  else if t.startsWith "h:" then (ofHex (t.drop 2).toString).map .str
  else if t.startsWith "i:" then (t.drop 2).toString.toInt?.map .int
  else if t.startsWith "b:" then some (.bool (t = "b:1"))
  else if t.startsWith "f:" then some (.float (t.drop 2).toString)
  else none

mutual
/-- parse one value; fuel bounds the recursion depth -/
def parseVal : Nat → List String → Option (SX × List String)
  | 0, _ => none
  | fuel + 1, toks =>
    match toks with
    | "(" :: name :: rest => do
      let (fs, rest') ← parseFields fuel rest
      some (.node name fs, rest')
    | "[" :: rest => do
      let (xs, rest') ← parseList fuel rest
      some (.list xs, rest')
    | t :: rest => (atom t).map (·, rest)
    | [] => none
def parseFields : Nat → List String → Option (List (String × SX) × List String)
  | 0, _ => none
  | fuel + 1, toks =>
    match toks with
    | ")" :: rest => some ([], rest)
    | t :: rest =>
      -- `name=` followed by the value, or `name=atom` glued together
      match t.splitOn "=" with
      | [name, ""] => do
        let (v, rest') ← parseVal fuel rest
        let (fs, rest'') ← parseFields fuel rest'
        some ((name, v) :: fs, rest'')
      | [name, a] => do
        let v ← atom a
        let (fs, rest') ← parseFields fuel rest
        some ((name, v) :: fs, rest')
      | _ => none
    | [] => none
def parseList : Nat → List String → Option (List SX × List String)
  | 0, _ => none
  | fuel + 1, toks =>
    match toks with
    | "]" :: rest => some ([], rest)
    | _ => do
      let (v, rest) ← parseVal fuel toks
      let (vs, rest') ← parseList fuel rest
      some (v :: vs, rest')
end

def parse (s : String) : Option SX :=
  let toks := tokenize s
  match parseVal (toks.length + 1) toks with
  | some (v, []) => some v
  | _ => none

def SX.field (x : SX) (f : String) : SX :=
  match x with
  | .node _ fs => (fs.lookup f).getD .nil
  | _ => .nil

def SX.text : SX → String
  | .str b => (String.fromUTF8? (ByteArray.mk b.toArray)).getD ""
  | _ => ""
def SX.bytes : SX → Bytes
  | .str b => b
  | _ => []
def SX.items : SX → List SX
  | .list xs => xs
  | _ => []

/-! ### the text of RawObject leaves: identifiers, calls, literals, `*` `/` `+` `-`
    (what planners write with Sprintf); anything else stays an opaque `.raw`. -/
open Qryn.Lex in
def wordText (b : Bytes) : String := (String.fromUTF8? (ByteArray.mk b.toArray)).getD ""

open Qryn.Lex in
mutual
def rawPrimary : Nat → List Tok → Option (Expr × List Tok)
  | 0, _ => none
  | fuel + 1, toks =>
    match toks with
    | .word w :: .punct 40 :: rest => do          -- fn(
      let (args, rest') ← rawArgs fuel rest
      some (.call (wordText w) args, rest')
    | .word w :: .punct 91 :: .str k :: .punct 93 :: rest => some (.mapAt (.raw (wordText w)) k, rest)   -- name['key']
    | .word w :: rest =>
      let t := wordText w
      if t.toList.all (fun c => c.isDigit) then some (.int t.toInt!, rest)
      else if t.toList.all (fun c => c.isDigit ∨ c = '.') then some (.numLit t, rest)
      else some (.raw t, rest)
    | .str s :: rest => some (.str s, rest)
    | _ => none
def rawArgs : Nat → List Tok → Option (List Expr × List Tok)
  | 0, _ => none
  | fuel + 1, toks =>
    match toks with
    | .punct 41 :: rest => some ([], rest)
    | _ => do
      let (e, rest) ← rawPrimary fuel toks
      match rest with
      | .punct 44 :: rest' => do
        let (es, rest'') ← rawArgs fuel rest'
        some (e :: es, rest'')
      | .punct 41 :: rest' => some ([e], rest')
      | _ => none
end

/-- a RawObject text as an expression when it is exactly one identifier / call / literal; else `.raw` -/
def rawExpr (b : Bytes) : Expr :=
  if wordText b = labelsFpText then .labelsFp else
  let toks := Qryn.Lex.lex b
  match rawPrimary (toks.length + 1) toks with
  | some (e, []) => if renderExpr e == b then e else .raw (wordText b)
  | _ => .raw (wordText b)

def aliasOf (s : String) : Alias :=
  if s.startsWith "subsel_" then
    match (s.drop 7).toString.toNat? with
    | some k => if "subsel_" ++ toString k = s then .sub k else .named s
    | none => .named s
  else .named s

mutual
def toExpr : Nat → SX → Expr
  | 0, _ => .raw ""
  | fuel + 1, x =>
    match x with
    | .node "RawObject" _ => rawExpr (x.field "val").bytes
    | .node "StringVal" _ => .str (x.field "val").bytes
    | .node "IntVal" _ => (match x.field "val" with | .int i => .int i | _ => .raw "")
    | .node "FloatVal" _ => (match x.field "val" with | .float s => .numLit s | _ => .raw "")
    | .node "Col" _ => .col (toExpr fuel (x.field "expr")) (x.field "alias").text
    | .node "WithRef" _ => .withRef (aliasOf (x.field "alias").text)
    | .node "In" _ => .isIn (toExpr fuel (x.field "leftSide")) (toExprs fuel (x.field "rightSide").items)
    | .node "LogicalOp" _ => .logical (x.field "fn").text (toExprs fuel (x.field "clauses").items)
    | .node "CNot" _ => .not (toExpr fuel (x.field "expr"))
    | .node "CNotNull" _ => .notNull (toExpr fuel (x.field "expr"))
    | .node "notNull" _ => .notNull (toExpr fuel (x.field "main"))
    | .node "toFloat64OrNull" _ => .call "toFloat64OrNull" [toExpr fuel (x.field "main")]
    | .node "sqlMatch" _ =>
      (match x.field "patternObj" with
       | .nil => .matchFn (toExpr fuel (x.field "col")) (x.field "pattern").bytes
       | po => .call "match" [toExpr fuel (x.field "col"), toExpr fuel po])
    -- ---- the SQL-side LogQL pipeline stages (C07): ids of `regexMap` are assigned afterwards, in rendering order (`Sql.DumpX`)
    | .node "sqlMapUpdate" _ => .call "mapUpdate" [toExpr fuel (x.field "m1"), toExpr fuel (x.field "m2")]
    | .node "sqlJsonParser" _ =>
      (match toExpr fuel (x.field "col") with
       | .raw "string" =>
         .jsonMap (((x.field "labels").items.map SX.bytes).zip ((x.field "paths").items.map (fun p => p.items.filterMap (fun a =>
           match a with
           | .node "StringVal" _ => some (JArg.key (a.field "val").bytes)
           | .node "IntVal" _ => (match a.field "val" with | .int i => some (JArg.idx i) | _ => none)
           | .str k => some (JArg.key k)      -- the tree before the `fix:` of array positions held plain strings
           | _ => none))))
       | _ => .raw "")
    | .node "regexMap" _ =>
      (match toExpr fuel (x.field "col") with
       | .raw "string" => .regexMap ((x.field "labels").items.map SX.bytes) (x.field "re").bytes 0
       | _ => .raw "")
    | .node "mapDropFilter" _ =>
      .mapDrop (toExpr fuel (x.field "col")) (((x.field "labels").items.map SX.bytes).zip ((x.field "values").items.map SX.bytes))
    | .node "SqlBitSetAnd" _ => .bitSetAnd (toExprs fuel (x.field "clauses").items)
    | .node "OrderBy" _ =>
      .orderBy (toExpr fuel (x.field "col")) (match x.field "direction" with | .int 3 => .asc | _ => .desc)
    | _ => .raw ""
def toExprs : Nat → List SX → List Expr
  | _, [] => []
  | fuel, x :: xs => toExpr fuel x :: toExprs fuel xs
end

def optExpr (fuel : Nat) : SX → Option Expr
  | .nil => none
  | x => some (toExpr fuel x)

def setopKind : String → Option String
  | "intersect" => some "INTERSECT"
  | "union" => some "UNION ALL"
  | _ => none

def tsLabelsFix : Expr → Expr
  | .col (.raw s) a => if s = tsLabelsText then .col .tsLabels a else .col (.raw s) a
  | e => e

mutual
def toSel : Nat → SX → Sel
  | 0, _ => .mk [] false [] none [] none none [] none [] none
  | fuel + 1, x =>
    let withs := toWiths fuel (x.field "withs").items
    let joins := (x.field "joins").items.filterMap (fun j =>
      match j.field "table" with
      | .node "WithRef" _ => some ((j.field "tp").text, aliasOf ((j.field "table").field "alias").text, toExpr fuel (j.field "on"))
      | _ => none)
    let from_ : Option Expr :=
      match x.field "from" with
      | .node "Col" fs =>
        (match (SX.node "Col" fs).field "expr" with
         | .node n fs' =>
           (match setopKind n with
            | some k => some (.col (.setOp k (toSels fuel ((SX.node n fs').field "selects").items)) ((SX.node "Col" fs).field "alias").text)
            | none => optExpr fuel (x.field "from"))
         | _ => optExpr fuel (x.field "from"))
      | f => optExpr fuel f
    .mk withs (match x.field "distinct" with | .bool b => b | _ => false)
      ((toExprs fuel (x.field "columns").items).map tsLabelsFix)
      from_ joins (optExpr fuel (x.field "preWhere")) (optExpr fuel (x.field "where"))
      (toExprs fuel (x.field "groupBy").items) (optExpr fuel (x.field "having"))
      (toExprs fuel (x.field "orderBy").items) (optExpr fuel (x.field "limit"))
def toSels : Nat → List SX → List Sel
  | _, [] => []
  | 0, _ => []
  | fuel + 1, x :: xs => toSel fuel x :: toSels fuel xs
def toWiths : Nat → List SX → List (Alias × Sel)
  | _, [] => []
  | 0, _ => []
  | fuel + 1, w :: ws =>
    (match w with
     | .node "With" _ => [(aliasOf (w.field "alias").text, toSel fuel (w.field "query"))]
     | _ => []) ++ toWiths fuel ws
end

/-- depth of a dump (bounds the conversion) -/
def selOfDump (s : String) : Option Sel := (parse s).map (toSel (s.length + 1))

end Qryn.Sql.Dump
