import Qryn.Base.Bytes
/-! # JSON (RFC 8259) at byte level. Core-only.

* `JVal` — JSON values. Strings and object keys are **byte strings** (what the decoder yields after
  un-escaping); numbers keep their token text (lossless).
* `parse : Bytes → Option (JVal × Bytes)` — the RFC 8259 `value` grammar with insignificant whitespace,
  returning the unconsumed rest. Fuel-recursive on nesting/element count; strings and numbers are read
  by structurally recursive scanners. `parseDoc` = one value, then only whitespace.
  The grammar is checked at *byte* level: bytes ≥ 0x80 inside strings are copied as they are (like
  `encoding/json.Valid`, UTF-8 well-formedness is a separate predicate, `validUtf8`). `\uXXXX` escapes are
  decoded to UTF-8; surrogate pairs are combined; a lone surrogate decodes to U+FFFD (as Go does).
* `escJ` — the body jsoniter's `Stream.WriteString` writes between the quotes (stream_str.go
  `WriteString`/`writeStringSlowPath`, the *non-HTML* variant: bytes ≥ 0x80 are copied without any UTF-8
  check; `<`, `>`, `&`, U+2028/9 are not escaped).
* `escStd` — the body `encoding/json.Marshal(string)` writes (`appendString` with `escapeHTML = true`):
  `<`,`>`,`&` → `\u00XX`, invalid UTF-8 byte → `\ufffd`, U+2028/9 → `\u2028`/`\u2029`.
* `print` — compact printer (no whitespace; strings with `escJ`), i.e. what a sequence of jsoniter
  `WriteObjectStart/WriteObjectField/WriteString/WriteMore/…` calls produces.
Theorems are in `Qryn.Proofs.Json`. -/
namespace Qryn.Json
open Qryn

inductive JVal where
  | null
  | bool (b : Bool)
  | num (tok : Bytes)
  | str (s : Bytes)
  | arr (xs : List JVal)
  | obj (kvs : List (Bytes × JVal))
  deriving Repr, Inhabited

/-! ## whitespace -/
def isWs (c : UInt8) : Bool := c = 32 || c = 9 || c = 10 || c = 13

def skipWs : Bytes → Bytes
  | [] => []
  | c :: r => if isWs c then skipWs r else c :: r

/-! ## strings -/
def hexv (c : UInt8) : Option Nat :=
  if 48 ≤ c ∧ c ≤ 57 then some (c.toNat - 48)
  else if 97 ≤ c ∧ c ≤ 102 then some (c.toNat - 87)
  else if 65 ≤ c ∧ c ≤ 70 then some (c.toNat - 55)
  else none

def hex4 (a b c d : UInt8) : Option Nat :=
  match hexv a, hexv b, hexv c, hexv d with
  | some w, some x, some y, some z => some (((w * 16 + x) * 16 + y) * 16 + z)
  | _, _, _, _ => none

/-- U+FFFD in UTF-8 -/
def replacement : Bytes := [0xEF, 0xBF, 0xBD]

/-- UTF-8 encoding of a code point; surrogates and values above U+10FFFF encode as U+FFFD
    (`utf8.AppendRune`). -/
def utf8enc (cp : Nat) : Bytes :=
  if cp < 0x80 then [UInt8.ofNat cp]
  else if cp < 0x800 then [UInt8.ofNat (0xC0 + cp / 64), UInt8.ofNat (0x80 + cp % 64)]
  else if 0xD800 ≤ cp ∧ cp < 0xE000 then replacement
  else if cp < 0x10000 then
    [UInt8.ofNat (0xE0 + cp / 4096), UInt8.ofNat (0x80 + cp / 64 % 64), UInt8.ofNat (0x80 + cp % 64)]
  else if cp < 0x110000 then
    [UInt8.ofNat (0xF0 + cp / 262144), UInt8.ofNat (0x80 + cp / 4096 % 64),
     UInt8.ofNat (0x80 + cp / 64 % 64), UInt8.ofNat (0x80 + cp % 64)]
  else replacement

/-- the single-character escapes of RFC 8259 §7 -/
def unesc (c : UInt8) : Option UInt8 :=
  if c = 34 then some 34 else if c = 92 then some 92 else if c = 47 then some 47
  else if c = 98 then some 8 else if c = 102 then some 12 else if c = 110 then some 10
  else if c = 114 then some 13 else if c = 116 then some 9 else none

/-- Reads a string body (the opening quote already consumed) up to the closing quote; yields the decoded
    bytes appended to `acc` and the rest after the closing quote. `none`: unterminated string, raw control
    byte, bad escape. `pend` holds a high surrogate read from a `\uXXXX` escape that still waits for its low
    half (it decodes to U+FFFD when anything else follows). -/
def parseStrP : Option Nat → Bytes → Bytes → Option (Bytes × Bytes)
  | _, [], _ => none
  | pend, c :: r, acc =>
    let acc' := if pend.isSome then acc ++ replacement else acc
    if c = 34 then some (acc', r)
    else if c = 92 then
      match r with
      | [] => none
      | e :: r1 =>
        if e = 117 then
          match r1 with
          | a :: b :: c' :: d :: r2 =>
            match hex4 a b c' d with
            | none => none
            | some u =>
              match pend with
              | some hi =>
                if 0xDC00 ≤ u ∧ u < 0xE000 then
                  parseStrP none r2 (acc ++ utf8enc (0x10000 + (hi - 0xD800) * 1024 + (u - 0xDC00)))
                else if 0xD800 ≤ u ∧ u < 0xDC00 then parseStrP (some u) r2 acc'
                else parseStrP none r2 (acc' ++ utf8enc u)
              | none =>
                if 0xD800 ≤ u ∧ u < 0xDC00 then parseStrP (some u) r2 acc
                else parseStrP none r2 (acc ++ utf8enc u)
          | _ => none
        else
          match unesc e with
          | some b => parseStrP none r1 (acc' ++ [b])
          | none => none
    else if c < 32 then none
    else parseStrP none r (acc' ++ [c])

def parseStrBody (bs acc : Bytes) : Option (Bytes × Bytes) := parseStrP none bs acc

/-! ## numbers -/
def isDigit (c : UInt8) : Bool := 48 ≤ c && c ≤ 57
/-- bytes that can occur in a number token: digits `+ - . e E` -/
def numChar (c : UInt8) : Bool := isDigit c || c = 43 || c = 45 || c = 46 || c = 101 || c = 69

/-- states of the RFC 8259 number grammar `-? (0 | [1-9][0-9]*) (\.[0-9]+)? ([eE][+-]?[0-9]+)?` -/
inductive NumSt where
  | start | minus | zero | int | dot | frac | e | esign | exp | bad
  deriving DecidableEq, Repr

def NumSt.step : NumSt → UInt8 → NumSt
  | .start, c => if c = 45 then .minus else if c = 48 then .zero else if isDigit c then .int else .bad
  | .minus, c => if c = 48 then .zero else if isDigit c then .int else .bad
  | .zero, c => if c = 46 then .dot else if c = 101 ∨ c = 69 then .e else .bad
  | .int, c => if isDigit c then .int else if c = 46 then .dot else if c = 101 ∨ c = 69 then .e else .bad
  | .dot, c => if isDigit c then .frac else .bad
  | .frac, c => if isDigit c then .frac else if c = 101 ∨ c = 69 then .e else .bad
  | .e, c => if c = 43 ∨ c = 45 then .esign else if isDigit c then .exp else .bad
  | .esign, c => if isDigit c then .exp else .bad
  | .exp, c => if isDigit c then .exp else .bad
  | .bad, _ => .bad

def NumSt.accept : NumSt → Bool
  | .zero | .int | .frac | .exp => true
  | _ => false

/-- `tok` is a JSON number -/
def isNumTok (tok : Bytes) : Bool := (tok.foldl NumSt.step .start).accept

/-- maximal run of number bytes, accepted iff it is a JSON number (in a well-formed text a number is
    followed by whitespace, `,`, `]`, `}` or the end, none of which is a number byte) -/
def parseNum (bs : Bytes) : Option (Bytes × Bytes) :=
  let tok := bs.takeWhile numChar
  if isNumTok tok then some (tok, bs.dropWhile numChar) else none

/-! ## values -/
mutual
/-- `parseVal fuel bs`: optional whitespace, then one value; `fuel` bounds nesting depth + element count -/
def parseVal : Nat → Bytes → Option (JVal × Bytes)
  | 0, _ => none
  | n + 1, bs =>
    match skipWs bs with
    | [] => none
    | c :: r =>
      if c = 34 then
        match parseStrBody r [] with
        | some (s, r') => some (.str s, r')
        | none => none
      else if c = 91 then
        match skipWs r with
        | [] => none
        | d :: r' =>
          if d = 93 then some (.arr [], r')
          else match parseElems n (d :: r') with
            | some (xs, r'') => some (.arr xs, r'')
            | none => none
      else if c = 123 then
        match skipWs r with
        | [] => none
        | d :: r' =>
          if d = 125 then some (.obj [], r')
          else match parseMembers n (d :: r') with
            | some (kvs, r'') => some (.obj kvs, r'')
            | none => none
      else if c = 116 then
        match r with
        | 114 :: 117 :: 101 :: r' => some (.bool true, r')
        | _ => none
      else if c = 102 then
        match r with
        | 97 :: 108 :: 115 :: 101 :: r' => some (.bool false, r')
        | _ => none
      else if c = 110 then
        match r with
        | 117 :: 108 :: 108 :: r' => some (.null, r')
        | _ => none
      else
        match parseNum (c :: r) with
        | some (t, r') => some (.num t, r')
        | none => none
/-- one or more comma-separated values, then `]` -/
def parseElems : Nat → Bytes → Option (List JVal × Bytes)
  | 0, _ => none
  | n + 1, bs =>
    match parseVal n bs with
    | none => none
    | some (v, r) =>
      match skipWs r with
      | [] => none
      | c :: r' =>
        if c = 44 then
          match parseElems n r' with
          | some (vs, r'') => some (v :: vs, r'')
          | none => none
        else if c = 93 then some ([v], r')
        else none
/-- one or more comma-separated `string : value` members, then `}` -/
def parseMembers : Nat → Bytes → Option (List (Bytes × JVal) × Bytes)
  | 0, _ => none
  | n + 1, bs =>
    match skipWs bs with
    | [] => none
    | q :: r =>
      if q = 34 then
        match parseStrBody r [] with
        | none => none
        | some (k, r1) =>
          match skipWs r1 with
          | [] => none
          | c :: r2 =>
            if c = 58 then
              match parseVal n r2 with
              | none => none
              | some (v, r3) =>
                match skipWs r3 with
                | [] => none
                | c' :: r4 =>
                  if c' = 44 then
                    match parseMembers n r4 with
                    | some (kvs, r5) => some ((k, v) :: kvs, r5)
                    | none => none
                  else if c' = 125 then some ([(k, v)], r4)
                  else none
            else none
      else none
end

/-- one JSON value at the start of `bs` (after optional whitespace) and the unconsumed rest -/
def parse (bs : Bytes) : Option (JVal × Bytes) := parseVal (bs.length + 1) bs

/-- `bs` is exactly one JSON document: a value surrounded by optional whitespace -/
def parseDoc (bs : Bytes) : Option JVal :=
  match parse bs with
  | some (v, r) => if skipWs r = [] then some v else none
  | none => none

/-! ## writers -/
def hexLow (n : Nat) : UInt8 := if n < 10 then UInt8.ofNat (48 + n) else UInt8.ofNat (87 + n)

/-- `\u00XX` -/
def u00 (c : UInt8) : Bytes := [92, 117, 48, 48, hexLow (c.toNat / 16), hexLow (c.toNat % 16)]

/-- jsoniter `safeSet` (stream_str.go): ASCII bytes copied as they are by `WriteString` -/
def jsoniterSafe (c : UInt8) : Bool := 32 ≤ c && c ≠ 34 && c ≠ 92

/-- one byte of jsoniter `WriteString` (both the fast path and `writeStringSlowPath`) -/
def escJByte (c : UInt8) : Bytes :=
  if 128 ≤ c then [c]
  else if jsoniterSafe c then [c]
  else if c = 92 ∨ c = 34 then [92, c]
  else if c = 10 then [92, 110]
  else if c = 13 then [92, 114]
  else if c = 9 then [92, 116]
  else u00 c

/-- what `Stream.WriteString(s)` writes between the quotes -/
def escJ (s : Bytes) : Bytes := s.flatMap escJByte

/-- `Stream.WriteString(s)` -/
def jstr (s : Bytes) : Bytes := 34 :: escJ s ++ [34]

/-- encoding/json `htmlSafeSet`: ASCII bytes copied as they are when `escapeHTML` is on -/
def stdSafe (c : UInt8) : Bool := 32 ≤ c && c ≠ 34 && c ≠ 92 && c ≠ 60 && c ≠ 62 && c ≠ 38

/-- one ASCII byte of encoding/json `appendString` (Go ≥ 1.22: `\b` and `\f` have short forms) -/
def escStdAscii (c : UInt8) : Bytes :=
  if stdSafe c then [c]
  else if c = 92 ∨ c = 34 then [92, c]
  else if c = 8 then [92, 98]
  else if c = 12 then [92, 102]
  else if c = 10 then [92, 110]
  else if c = 13 then [92, 114]
  else if c = 9 then [92, 116]
  else u00 c

def isCont (c : UInt8) : Bool := 0x80 ≤ c && c ≤ 0xBF

def lo3 (c0 : UInt8) : UInt8 := if c0 = 0xE0 then 0xA0 else 0x80
def hi3 (c0 : UInt8) : UInt8 := if c0 = 0xED then 0x9F else 0xBF
def lo4 (c0 : UInt8) : UInt8 := if c0 = 0xF0 then 0x90 else 0x80
def hi4 (c0 : UInt8) : UInt8 := if c0 = 0xF4 then 0x8F else 0xBF
/-- well-formed 2-, 3-, 4-byte UTF-8 sequences (Unicode Table 3-7, = Go's `utf8` accept ranges) -/
def is2 (c0 c1 : UInt8) : Bool := 0xC2 ≤ c0 && c0 ≤ 0xDF && isCont c1
def is3 (c0 c1 c2 : UInt8) : Bool := 0xE0 ≤ c0 && c0 ≤ 0xEF && lo3 c0 ≤ c1 && c1 ≤ hi3 c0 && isCont c2
def is4 (c0 c1 c2 c3 : UInt8) : Bool :=
  0xF0 ≤ c0 && c0 ≤ 0xF4 && lo4 c0 ≤ c1 && c1 ≤ hi4 c0 && isCont c2 && isCont c3

/-- length (2–4) of the well-formed UTF-8 sequence at the head of `s` whose first byte is ≥ 0x80, or 0 when
    `utf8.DecodeRuneInString` would return `(RuneError, 1)` -/
def utf8Len : Bytes → Nat
  | c0 :: c1 :: c2 :: c3 :: _ => if is2 c0 c1 then 2 else if is3 c0 c1 c2 then 3 else if is4 c0 c1 c2 c3 then 4 else 0
  | [c0, c1, c2] => if is2 c0 c1 then 2 else if is3 c0 c1 c2 then 3 else 0
  | [c0, c1] => if is2 c0 c1 then 2 else 0
  | _ => 0

/-- one step of encoding/json `appendString` on a non-empty input: (bytes written, decoded meaning of those
    bytes, number of input bytes consumed ≥ 1) -/
def stdStep : Bytes → Bytes × Bytes × Nat
  | [] => ([], [], 1)
  | c :: r =>
    if c < 128 then (escStdAscii c, [c], 1)
    else
      let n := utf8Len (c :: r)
      if n = 0 then ([92, 117, 102, 102, 102, 100], replacement, 1)
      else
        let sq := (c :: r).take n
        if sq = [0xE2, 0x80, 0xA8] then ([92, 117, 50, 48, 50, 56], sq, 3)
        else if sq = [0xE2, 0x80, 0xA9] then ([92, 117, 50, 48, 50, 57], sq, 3)
        else (sq, sq, n)

/-- `escStdF fuel s`: encoding/json string body; `fuel ≥ s.length` -/
def escStdF : Nat → Bytes → Bytes
  | 0, _ => []
  | _, [] => []
  | f + 1, c :: r => let (o, _, n) := stdStep (c :: r); o ++ escStdF f ((c :: r).drop n)

/-- what `json.Marshal(s)` writes between the quotes -/
def escStd (s : Bytes) : Bytes := escStdF s.length s

/-- `string(json.Marshal(s))` for a Go string -/
def stdstr (s : Bytes) : Bytes := 34 :: escStd s ++ [34]

def sanitizeF : Nat → Bytes → Bytes
  | 0, _ => []
  | _, [] => []
  | f + 1, c :: r => let (_, m, n) := stdStep (c :: r); m ++ sanitizeF f ((c :: r).drop n)

/-- `strings.ToValidUTF8`-like: every byte that is not part of a well-formed UTF-8 sequence becomes U+FFFD;
    this is what a decoder gets back from `json.Marshal(s)` -/
def sanitize (s : Bytes) : Bytes := sanitizeF s.length s

def validUtf8F : Nat → Bytes → Bool
  | 0, s => s.isEmpty
  | _, [] => true
  | f + 1, c :: r =>
    if c < 128 then validUtf8F f r
    else let n := utf8Len (c :: r); n ≠ 0 && validUtf8F f ((c :: r).drop n)

/-- `utf8.ValidString` -/
def validUtf8 (s : Bytes) : Bool := validUtf8F s.length s

mutual
/-- compact printer: what jsoniter's stream calls produce (no whitespace, strings by `WriteString`) -/
def print : JVal → Bytes
  | .null => [110, 117, 108, 108]
  | .bool true => [116, 114, 117, 101]
  | .bool false => [102, 97, 108, 115, 101]
  | .num t => t
  | .str s => jstr s
  | .arr xs => 91 :: printElems xs ++ [93]
  | .obj kvs => 123 :: printMembers kvs ++ [125]
def printElems : List JVal → Bytes
  | [] => []
  | [x] => print x
  | x :: y :: r => print x ++ 44 :: printElems (y :: r)
def printMembers : List (Bytes × JVal) → Bytes
  | [] => []
  | [(k, v)] => jstr k ++ 58 :: print v
  | (k, v) :: y :: r => jstr k ++ 58 :: print v ++ 44 :: printMembers (y :: r)
end

mutual
/-- every number token in the value is a JSON number (strings are unrestricted) -/
def JVal.wf : JVal → Bool
  | .num t => isNumTok t
  | .arr xs => wfList xs
  | .obj kvs => wfMembers kvs
  | _ => true
def wfList : List JVal → Bool
  | [] => true
  | x :: r => x.wf && wfList r
def wfMembers : List (Bytes × JVal) → Bool
  | [] => true
  | (_, v) :: r => v.wf && wfMembers r
end

/-- `strconv.Itoa` / `%d` / jsoniter `WriteInt64` -/
def natDigits : Nat → Nat → List UInt8
  | 0, _ => []
  | f + 1, n => if n < 10 then [UInt8.ofNat (48 + n)] else natDigits f (n / 10) ++ [UInt8.ofNat (48 + n % 10)]

def decNat (n : Nat) : Bytes := natDigits (n + 1) n

def decInt : Int → Bytes
  | .ofNat n => decNat n
  | .negSucc n => 45 :: decNat (n + 1)

end Qryn.Json
