import Qryn.Base.Bytes
/-! Go's `encoding/base64` at byte level (go1.24 `base64.go`). Core-only.

`encode` = `StdEncoding.EncodeToString`. `decode strict src` = `(enc.DecodeString src)` as the pair
(bytes returned, `err != nil`) for the padded standard alphabet; `strict = false` is `StdEncoding`,
`strict = true` is `StdEncoding.Strict()`. The decoder is the flattening of `Decode`'s loop over
`decodeQuantum`: `ds` are the 6-bit digits of the quantum being read (`dbuf[0..j)`), CR and LF are
skipped wherever they occur, a quantum that ends in padding must be the last thing in the input
(apart from CR/LF), and **on an error the bytes decoded so far are still returned** (for the
"trailing garbage" error including the bytes of the padded quantum itself) — the result
`basic_auth.go` used before the A34 fix.  `uint(d0)<<18 | d1<<12 | d2<<6 | d3` is written
arithmetically (the fields are disjoint). The 8- and 4-character fast paths of `Decode`
(`assemble64/32`) compute the same bytes as `decodeQuantum` on four alphabet characters and are not
distinguished. -/
namespace Qryn.B64

/-- `encodeStd[n]` -/
def encChar (n : Nat) : UInt8 :=
  if n < 26 then UInt8.ofNat (65 + n)
  else if n < 52 then UInt8.ofNat (71 + n)
  else if n < 62 then UInt8.ofNat (n - 4)
  else if n = 62 then 43 else 47

/-- `enc.decodeMap[c]`, `0xff ↦ none` -/
def decChar (c : UInt8) : Option Nat :=
  let n := c.toNat
  if 65 ≤ n ∧ n ≤ 90 then some (n - 65)
  else if 97 ≤ n ∧ n ≤ 122 then some (n - 71)
  else if 48 ≤ n ∧ n ≤ 57 then some (n + 4)
  else if n = 43 then some 62
  else if n = 47 then some 63
  else none

/-- `=` -/
def padChar : UInt8 := 61

def isNL (c : UInt8) : Bool := c == 10 || c == 13

/-- `for si < len(src) && (src[si] == '\n' || src[si] == '\r') { si++ }` -/
def skipNL : Bytes → Bytes
  | [] => []
  | c :: r => if isNL c then skipNL r else c :: r

/-- `StdEncoding.EncodeToString` -/
def encode : Bytes → Bytes
  | a :: b :: c :: rest =>
    let v := a.toNat * 65536 + b.toNat * 256 + c.toNat
    encChar (v / 262144) :: encChar (v / 4096 % 64) :: encChar (v / 64 % 64) :: encChar (v % 64) :: encode rest
  | [a, b] =>
    let v := a.toNat * 65536 + b.toNat * 256
    [encChar (v / 262144), encChar (v / 4096 % 64), encChar (v / 64 % 64), padChar]
  | [a] =>
    let v := a.toNat * 65536
    [encChar (v / 262144), encChar (v / 4096 % 64), padChar, padChar]
  | [] => []

/-- `val := uint(dbuf[0])<<18 | uint(dbuf[1])<<12 | uint(dbuf[2])<<6 | uint(dbuf[3])` (absent digits are 0) -/
def val (ds : List Nat) : Nat :=
  ds.getD 0 0 * 262144 + ds.getD 1 0 * 4096 + ds.getD 2 0 * 64 + ds.getD 3 0

/-- the `dlen - 1` bytes a quantum with `dlen` digits contributes -/
def emit (ds : List Nat) (dlen : Nat) : Bytes :=
  let v := val ds
  [UInt8.ofNat (v / 65536), UInt8.ofNat (v / 256 % 256), UInt8.ofNat (v % 256)].take (dlen - 1)

/-- `enc.strict && …`: the unused low bits of a padded quantum must be zero -/
def strictBad (strict : Bool) (ds : List Nat) (dlen : Nat) : Bool :=
  strict && (if dlen = 3 then val ds % 256 != 0 else val ds % 65536 != 0)

/-- the padded end of a quantum: `ds` digits were read, `=` was just consumed, `rest` follows -/
def padEnd (strict : Bool) (ds : List Nat) (rest : Bytes) : Bytes × Bool :=
  if ds.length < 2 then ([], true)                       -- case 0, 1: incorrect padding
  else if ds.length = 2 then
    match skipNL rest with                               -- "==" is expected
    | [] => ([], true)                                   -- not enough padding
    | c2 :: r2 =>
      if c2 ≠ padChar then ([], true)                    -- incorrect padding
      else if strictBad strict ds 2 then ([], true)
      else (emit ds 2, !(skipNL r2).isEmpty)             -- trailing garbage: bytes AND error
  else
    if strictBad strict ds 3 then ([], true)
    else (emit ds 3, !(skipNL rest).isEmpty)

/-- `Decode`: bytes decoded and whether an error is returned. -/
def go (strict : Bool) : Bytes → List Nat → Bytes × Bool
  | [], ds => ([], !ds.isEmpty)                          -- j = 0: done; j ≥ 1: CorruptInputError (padded encoding)
  | c :: rest, ds =>
    match decChar c with
    | some d =>
      if ds.length = 3 then
        let r := go strict rest []
        (emit (ds ++ [d]) 4 ++ r.1, r.2)
      else go strict rest (ds ++ [d])
    | none =>
      if isNL c then go strict rest ds
      else if c ≠ padChar then ([], true)
      else padEnd strict ds rest

/-- `enc.DecodeString(src)` as (returned bytes, err ≠ nil) -/
def decode (strict : Bool) (src : Bytes) : Bytes × Bool := go strict src []

/-- `StdEncoding.DecodeString` with the error checked -/
def decodeOk (src : Bytes) : Option Bytes :=
  match decode false src with
  | (out, false) => some out
  | (_, true) => none

end Qryn.B64
