import Qryn.Base.Bytes
/-! JSON strings and flat objects of strings, at byte level. Core-only.

    * `encodeString` — the string writer of go-faster/jx (`Writer.Str`, w_str.go): `"` and `\` get a
      backslash, `\n \r \t` their short forms, every other byte below 0x20 becomes `\u00XX` (lower-case
      hex), every other byte (DEL and all bytes ≥ 0x80 included) is copied.
    * `encodeObject` — `jx.Encoder`: `ObjStart`, then `FieldStart(name)`, `Str(value)` per member (commas
      between members, no white space), `ObjEnd`. This is `encodeLabels` of the writer.
    * `parseObject` — an RFC 8259 parser for `{"k":"v",…}`: white space between tokens, all string
      escapes (`\" \\ \/ \b \f \n \r \t \uXXXX`, surrogate pairs combined, lone surrogates → U+FFFD as
      encoding/json does), raw control bytes rejected, bytes ≥ 0x80 taken as they are. It returns the
      members in document order (duplicates kept), so a map view is `List.lookup` on the result. -/
namespace Qryn.JsonStr
open Qryn

/-! ### encoder (jx) -/

def escByte (c : UInt8) : Bytes :=
  if c = 34 then [92, 34]
  else if c = 92 then [92, 92]
  else if c = 10 then [92, 110]
  else if c = 13 then [92, 114]
  else if c = 9 then [92, 116]
  else if c < 32 then [92, 117, 48, 48, hexDigit (c.toNat / 16), hexDigit (c.toNat % 16)]
  else [c]

def encodeString (s : Bytes) : Bytes := 34 :: (s.flatMap escByte ++ [34])

def encodeMember (kv : Bytes × Bytes) : Bytes := encodeString kv.1 ++ 58 :: encodeString kv.2

def encodeMembers : List (Bytes × Bytes) → Bytes
  | [] => []
  | [kv] => encodeMember kv
  | kv :: rest => encodeMember kv ++ 44 :: encodeMembers rest

def encodeObject (ls : List (Bytes × Bytes)) : Bytes := 123 :: (encodeMembers ls ++ [125])

/-! ### parser -/

def hexVal (c : UInt8) : Option Nat :=
  if 48 ≤ c ∧ c ≤ 57 then some (c.toNat - 48)
  else if 97 ≤ c ∧ c ≤ 102 then some (c.toNat - 87)
  else if 65 ≤ c ∧ c ≤ 70 then some (c.toNat - 55) else none

def hex4 (a b c d : UInt8) : Option Nat :=
  match hexVal a, hexVal b, hexVal c, hexVal d with
  | some w, some x, some y, some z => some (((w * 16 + x) * 16 + y) * 16 + z)
  | _, _, _, _ => none

/-- UTF-8 encoding of a code point below 0x110000 -/
def utf8 (cp : Nat) : Bytes :=
  if cp < 0x80 then [UInt8.ofNat cp]
  else if cp < 0x800 then [UInt8.ofNat (0xC0 + cp / 64), UInt8.ofNat (0x80 + cp % 64)]
  else if cp < 0x10000 then
    [UInt8.ofNat (0xE0 + cp / 4096), UInt8.ofNat (0x80 + cp / 64 % 64), UInt8.ofNat (0x80 + cp % 64)]
  else [UInt8.ofNat (0xF0 + cp / 262144), UInt8.ofNat (0x80 + cp / 4096 % 64),
        UInt8.ofNat (0x80 + cp / 64 % 64), UInt8.ofNat (0x80 + cp % 64)]

def replacement : Bytes := [0xEF, 0xBF, 0xBD]

/-- the input just after a backslash: decoded bytes and what is left -/
def unescape : Bytes → Option (Bytes × Bytes)
  | [] => none
  | e :: r =>
    if e = 34 then some ([34], r)
    else if e = 92 then some ([92], r)
    else if e = 47 then some ([47], r)
    else if e = 98 then some ([8], r)
    else if e = 102 then some ([12], r)
    else if e = 110 then some ([10], r)
    else if e = 114 then some ([13], r)
    else if e = 116 then some ([9], r)
    else if e = 117 then
      match r with
      | a :: b :: c :: d :: r' =>
        match hex4 a b c d with
        | none => none
        | some u =>
          if 0xD800 ≤ u ∧ u < 0xDC00 then
            match r' with
            | b1 :: b2 :: a2 :: b3 :: c2 :: d2 :: r'' =>
              if b1 = 92 ∧ b2 = 117 then
                match hex4 a2 b3 c2 d2 with
                | some lo =>
                  if 0xDC00 ≤ lo ∧ lo < 0xE000 then
                    some (utf8 (0x10000 + (u - 0xD800) * 1024 + (lo - 0xDC00)), r'')
                  else some (replacement, r')
                | none => some (replacement, r')
              else some (replacement, r')
            | _ => some (replacement, r')
          else if 0xDC00 ≤ u ∧ u < 0xE000 then some (replacement, r')
          else some (utf8 u, r')
      | _ => none
    else none

/-- the input just after the opening quote: decoded string and what follows the closing quote.
    One unit of fuel per decoded item; `s.length + 1` always suffices. -/
def parseStrBody : Nat → Bytes → Option (Bytes × Bytes)
  | 0, _ => none
  | _ + 1, [] => none
  | fuel + 1, c :: rest =>
    if c = 34 then some ([], rest)
    else if c = 92 then
      match unescape rest with
      | none => none
      | some (d, r) => (parseStrBody fuel r).map (fun p => (d ++ p.1, p.2))
    else if c < 32 then none
    else (parseStrBody fuel rest).map (fun p => (c :: p.1, p.2))

def parseString : Bytes → Option (Bytes × Bytes)
  | [] => none
  | c :: r => if c = 34 then parseStrBody (r.length + 1) r else none

def isWs (c : UInt8) : Bool := c = 32 || c = 9 || c = 10 || c = 13

def skipWs : Bytes → Bytes
  | [] => []
  | c :: r => if isWs c then skipWs r else c :: r

/-- members `"k" : "v" , … }` up to and including the closing brace -/
def parseMembers : Nat → Bytes → Option (List (Bytes × Bytes) × Bytes)
  | 0, _ => none
  | fuel + 1, s =>
    match parseString (skipWs s) with
    | none => none
    | some (k, r1) =>
      match skipWs r1 with
      | [] => none
      | c :: r2 =>
        if c = 58 then
          match parseString (skipWs r2) with
          | none => none
          | some (v, r3) =>
            match skipWs r3 with
            | [] => none
            | d :: r4 =>
              if d = 44 then (parseMembers fuel r4).map (fun p => ((k, v) :: p.1, p.2))
              else if d = 125 then some ([(k, v)], r4)
              else none
        else none

/-- a whole document: one object whose members are strings -/
def parseObject (s : Bytes) : Option (List (Bytes × Bytes)) :=
  match skipWs s with
  | [] => none
  | c :: r =>
    if c = 123 then
      match skipWs r with
      | [] => none
      | d :: r' =>
        if d = 125 then (if skipWs r' = [] then some [] else none)
        else
          match parseMembers s.length (d :: r') with
          | none => none
          | some (m, rest) => if skipWs rest = [] then some m else none
    else none

end Qryn.JsonStr
