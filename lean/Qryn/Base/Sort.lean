/-! A stable insertion sort with the few lemmas the semantics need (ORDER BY = stable sort). Core-only. -/
namespace Qryn

/-- insert `x` after every element `y` with `le y x` (stable: equal elements keep their order) -/
def insertBy {α} (le : α → α → Bool) (x : α) : List α → List α
  | [] => [x]
  | y :: ys => if le y x then y :: insertBy le x ys else x :: y :: ys

/-- elements are inserted from the right, so earlier equal elements end up in front -/
def sortBy {α} (le : α → α → Bool) (l : List α) : List α := l.foldr (insertBy le) []

end Qryn
