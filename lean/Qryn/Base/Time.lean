import Qryn.Base.Bytes
/-! Calendar arithmetic: `time.Time.UTC().Format("2006-01-02")` as a function of the Unix second. -/
namespace Qryn.Time

/-- days since 1970-01-01 → (year, month, day), proleptic Gregorian (Howard Hinnant's algorithm) -/
def civilFromDays (z0 : Int) : Int × Nat × Nat :=
  let z := z0 + 719468
  let era := (if z ≥ 0 then z else z - 146096) / 146097
  let doe := (z - era * 146097).toNat                     -- [0, 146096]
  let yoe := (doe - doe / 1460 + doe / 36524 - doe / 146096) / 365   -- [0, 399]
  let y : Int := (yoe : Int) + era * 400
  let doy := doe - (365 * yoe + yoe / 4 - yoe / 100)      -- [0, 365]
  let mp := (5 * doy + 2) / 153                           -- [0, 11]
  let d := doy - (153 * mp + 2) / 5 + 1                   -- [1, 31]
  let m := if mp < 10 then mp + 3 else mp - 9             -- [1, 12]
  (if m ≤ 2 then y + 1 else y, m, d)

/-- zero-padded decimal digits (kernel-computable: no `toString`) -/
def digit (n : Nat) : UInt8 := UInt8.ofNat (48 + n % 10)
def pad2 (n : Nat) : Bytes := [digit (n / 10), digit n]
def pad4 (n : Nat) : Bytes := [digit (n / 1000), digit (n / 100), digit (n / 10), digit n]

/-- `time.Unix(sec, 0).UTC().Format("2006-01-02")` for years 0..9999 -/
def formatDate (unixSec : Int) : Bytes :=
  let (y, m, d) := civilFromDays (unixSec / 86400)
  pad4 y.toNat ++ [45] ++ pad2 m ++ [45] ++ pad2 d

/-- `FormatFromDate`: date of (from − 30 min) in UTC; `fromNs` is the Unix nanosecond -/
def formatFromDate (fromNs : Int) : Bytes := formatDate (fromNs / 1000000000 - 1800)

end Qryn.Time
