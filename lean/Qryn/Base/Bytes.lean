/-! Byte strings and the few Go string primitives the models need. Core-only. -/
namespace Qryn

abbrev Bytes := List UInt8

/-- `strings.Replace(s, string([]byte{p}), r, -1)` for a one-byte pattern. -/
def replaceByte (p : UInt8) (r : Bytes) (s : Bytes) : Bytes :=
  s.flatMap (fun c => if c = p then r else [c])

/-- a sequence of one-byte find/replace steps applied left to right (the loop of `StringVal.String`) -/
def escapeWith (tbl : List (UInt8 × Bytes)) (s : Bytes) : Bytes :=
  tbl.foldl (fun acc pr => replaceByte pr.1 pr.2 acc) s

theorem replaceByte_append (p r a b) :
    replaceByte p r (a ++ b) = replaceByte p r a ++ replaceByte p r b := by
  simp [replaceByte, List.flatMap_append]

theorem replaceByte_nil (p r) : replaceByte p r [] = [] := rfl

theorem escapeWith_append (tbl : List (UInt8 × Bytes)) (a b : Bytes) :
    escapeWith tbl (a ++ b) = escapeWith tbl a ++ escapeWith tbl b := by
  induction tbl generalizing a b with
  | nil => rfl
  | cons t tbl ih =>
    simp only [escapeWith, List.foldl_cons, replaceByte_append] at ih ⊢
    exact ih _ _

theorem escapeWith_nil (tbl : List (UInt8 × Bytes)) : escapeWith tbl [] = [] := by
  induction tbl with
  | nil => rfl
  | cons t tbl ih => simpa [escapeWith, replaceByte_nil] using ih

theorem escapeWith_cons (tbl : List (UInt8 × Bytes)) (c : UInt8) (s : Bytes) :
    escapeWith tbl (c :: s) = escapeWith tbl [c] ++ escapeWith tbl s := by
  have := escapeWith_append tbl [c] s
  simpa using this

/-- every byte is `UInt8.ofNat n` for some `n < 256`: lifts a bounded `decide` to all bytes -/
theorem forall_byte_of_lt {p : UInt8 → Prop} (h : ∀ n, n < 256 → p (UInt8.ofNat n)) : ∀ c, p c := by
  intro c
  have := h c.toNat (UInt8.toNat_lt c)
  simpa using this

def hexDigit (n : Nat) : UInt8 :=
  if n < 10 then UInt8.ofNat (48 + n) else UInt8.ofNat (87 + n)

def toHex (b : Bytes) : String :=
  String.ofList (b.flatMap (fun c => [Char.ofNat (hexDigit (c.toNat / 16)).toNat, Char.ofNat (hexDigit (c.toNat % 16)).toNat]))

def hexVal? (c : Char) : Option Nat :=
  if '0' ≤ c ∧ c ≤ '9' then some (c.toNat - 48)
  else if 'a' ≤ c ∧ c ≤ 'f' then some (c.toNat - 87)
  else if 'A' ≤ c ∧ c ≤ 'F' then some (c.toNat - 55) else none

def ofHexChars : List Char → Option Bytes
  | [] => some []
  | [_] => none
  | a :: b :: rest =>
    match hexVal? a, hexVal? b, ofHexChars rest with
    | some x, some y, some r => some (UInt8.ofNat (x * 16 + y) :: r)
    | _, _, _ => none

/-- protocol encoding of byte strings: lower-case hex, `-` for the empty string -/
def ofHex (s : String) : Option Bytes :=
  if s = "-" then some [] else ofHexChars s.toList

def hexOut (b : Bytes) : String := if b.isEmpty then "-" else toHex b

end Qryn
