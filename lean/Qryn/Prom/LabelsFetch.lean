import Qryn.Prom.Select
import Qryn.Base.Time
import Qryn.Gen.PromLabelsFetch
/-! The "labels fetched afterwards" step of `CLokiQuerier.Select` (reader/service/promQueryable.go): model of
    `newLabelsGetter(time.UnixMilli(hints.Start), time.UnixMilli(hints.End), …)`, `labelsGetter.Plan`,
    `labelsGetter.getFetchRequest`, `labelsGetter.Fetch` (the row loop filling `fingerprintsHas`) and `labelsGetter.Get`.

    The statement is
    `SELECT fingerprint, JSONExtractKeysAndValues(labels, 'String') as labels FROM time_series WHERE (fingerprint IN (…)) and
     (date >= 'FormatFromDate(DateFrom)') and (date <= 'DateTo.UTC().Format("2006-01-02")')`.
    `time_series` is partitioned by `date`; the writer registers a series on every UTC day it has samples (C04). Dates are day
    numbers (days since 1970-01-01, what a ClickHouse `Date` is); the literals are their `YYYY-MM-DD` texts (`Time.formatDate`),
    which ClickHouse parses back to the day number before comparing. Which instant the lower bound is taken from is
    `Gen.PromLabelsFetch.lowerOf`, regenerated from the source on every run. Core-only. -/
namespace Qryn.Prom.LabelsFetch
open Qryn Qryn.Prom

abbrev Labels := List (Bytes × Bytes)

/-- one row of `time_series` as far as the labels request sees it: the day number of `date`, the fingerprint and the label
    pairs `JSONExtractKeysAndValues(labels, 'String')` returns -/
structure TsRow where
  day : Int
  fp : Nat
  labels : Labels
deriving DecidableEq, Repr

/-- a stored sample: fingerprint and time in milliseconds -/
structure Smp where
  fp : Nat
  ts : Int
deriving DecidableEq, Repr

/-- the UTC day a millisecond timestamp falls on -/
def dayOfMs (ms : Int) : Int := ms / 86400000

/-- Unix second of `time.UnixMilli(ms)` as `Format` sees it -/
def secOfMs (ms : Int) : Int := ms / 1000

/-- the instant the lower date bound is taken from: `l.DateFrom` (= `hints.Start`) or `l.DateTo` (= `hints.End`) -/
def lowerInstant (lowerOf : String) (startMs endMs : Int) : Int := if lowerOf = "from" then startMs else endMs

/-- Unix second `FormatFromDate` formats: 30 minutes before the instant -/
def lowerSec (lowerOf : String) (startMs endMs : Int) : Int :=
  secOfMs (lowerInstant lowerOf startMs endMs) - Gen.PromLabelsFetch.marginSec

/-- the request `getFetchRequest` builds -/
structure Fetch where
  table : String
  fps : List Nat
  lowerSec : Int
  upperSec : Int

def fetchWith (lowerOf : String) (dist : Bool) (startMs endMs : Int) (fps : List Nat) : Fetch :=
  { table := if dist then Gen.PromLabelsFetch.distTable else Gen.PromLabelsFetch.table
    fps := fps
    lowerSec := lowerSec lowerOf startMs endMs
    upperSec := secOfMs endMs }

/-- the request of the code as it is now -/
def fetch (dist : Bool) (startMs endMs : Int) (fps : List Nat) : Fetch :=
  fetchWith Gen.PromLabelsFetch.lowerOf dist startMs endMs fps

def Fetch.lowerDay (q : Fetch) : Int := q.lowerSec / 86400
def Fetch.upperDay (q : Fetch) : Int := q.upperSec / 86400

/-- WHERE of the request on one row -/
def Fetch.holds (q : Fetch) (r : TsRow) : Bool :=
  q.fps.contains r.fp && decide (q.lowerDay ≤ r.day) && decide (r.day ≤ q.upperDay)

/-- the rows ClickHouse returns -/
def Fetch.eval (q : Fetch) (ts : List TsRow) : List TsRow := ts.filter q.holds

/-- the SQL text (fingerprints in the order given; Go iterates a map, the harness sorts both sides) -/
def Fetch.render (q : Fetch) : Bytes :=
  ascii "SELECT fingerprint, JSONExtractKeysAndValues(labels, 'String') as labels FROM " ++ ascii q.table ++ ascii " WHERE " ++
    logical "and" [
      ascii "fingerprint IN (" ++ joinWith (ascii ",") (q.fps.map (fun f => ascii (toString f))) ++ ascii ")",
      logical (fnOf "Ge") [ascii "date", Sql.quote (Time.formatDate q.lowerSec)],
      logical (fnOf "Le") [ascii "date", Sql.quote (Time.formatDate q.upperSec)]]

/-- `Fetch`: every returned row assigns `fingerprintsHas[fingerprint]` (a later row of the same fingerprint overwrites);
    `norm` = the two `sort.Slice` by label name -/
def fetchLoop (norm : Labels → Labels) (rows : List TsRow) : Nat → Option Labels :=
  rows.foldl (fun m r => fun k => if k = r.fp then some (norm r.labels) else m k) (fun _ => none)

/-- `Get`: the entry, `labels.Labels{}` for a fingerprint without one ("Warning: no fingerprint … found") -/
def get (has : Nat → Option Labels) (fp : Nat) : Labels := (has fp).getD []

/-- the label set a series of fingerprint `fp` reaches the engine with: `Plan` for every fingerprint of the scanned rows, one
    `Fetch` over the window of the hints, `Get` -/
def labelsOf (norm : Labels → Labels) (lowerOf : String) (startMs endMs : Int) (planned : List Nat) (ts : List TsRow)
    (fp : Nat) : Labels :=
  get (fetchLoop norm ((fetchWith lowerOf false startMs endMs planned).eval ts)) fp

end Qryn.Prom.LabelsFetch
