/-! The bit-set encoding of `SqlBitSetAnd` (planner_stream_select.go): per index row the sum
    `Σᵢ bitShiftLeft(condᵢ, i)`, OR-ed over the rows of one fingerprint by `groupBitOr`, compared with
    `2ⁿ − 1` in HAVING.

    ClickHouse typing: `bitShiftLeft(a, n)` has the type of `a`, bits shifted out are lost. A comparison
    is a `UInt8`, so without a widening cast the term for i ≥ 8 is 0; `W` is the width of the shifted
    operand (8 as the code was written, 64 under `toUInt64(...)`). The sum itself is widened by ClickHouse
    (UInt8+UInt8 → UInt16 …) and cannot overflow for ≤ 64 terms of distinct powers of two. Core-only. -/
namespace Qryn.Prom.Bits

/-- Σ_i bitShiftLeft(b_i, i) on unbounded integers, little end first -/
def bits : List Bool → Nat
  | [] => 0
  | b :: bs => b.toNat + 2 * bits bs

/-- the same with an operand of `W` bits: terms with index ≥ W vanish (`k` = index of the head) -/
def bitsFrom (W : Nat) : Nat → List Bool → Nat
  | _, [] => 0
  | k, b :: bs => (if k < W then b.toNat * 2 ^ k else 0) + bitsFrom W (k + 1) bs

def bitsW (W : Nat) (bs : List Bool) : Nat := bitsFrom W 0 bs

theorem bitsFrom_eq (W : Nat) (bs : List Bool) (k : Nat) (h : k + bs.length ≤ W) :
    bitsFrom W k bs = 2 ^ k * bits bs := by
  induction bs generalizing k with
  | nil => simp [bitsFrom, bits]
  | cons b bs ih =>
    simp only [List.length_cons] at h
    have hk : k < W := by omega
    simp only [bitsFrom, hk, if_true, bits]
    rw [ih (k + 1) (by omega), Nat.pow_succ]
    rw [Nat.mul_add, Nat.mul_comm (b.toNat), Nat.mul_assoc]

/-- with at most `W` conditions the width does not matter -/
theorem bitsW_eq (W : Nat) (bs : List Bool) (h : bs.length ≤ W) : bitsW W bs = bits bs := by
  have := bitsFrom_eq W bs 0 (by omega)
  simpa [bitsW] using this

theorem testBit_bits (bs : List Bool) (i : Nat) : (bits bs).testBit i = bs.getD i false := by
  induction bs generalizing i with
  | nil => simp [bits]
  | cons b bs ih =>
    cases i with
    | zero => cases b <;> simp [bits, Nat.testBit_zero] <;> omega
    | succ i =>
      have : (b.toNat + 2 * bits bs) / 2 = bits bs := by cases b <;> simp <;> omega
      simp [bits, Nat.testBit_succ, this, ih]

/-- groupBitOr over the rows of one group -/
def groupOrW (W : Nat) (rows : List (List Bool)) : Nat := rows.foldl (fun acc r => acc ||| bitsW W r) 0
def groupOr (rows : List (List Bool)) : Nat := rows.foldl (fun acc r => acc ||| bits r) 0

theorem testBit_foldl_or (rows : List (List Bool)) (a i : Nat) :
    (rows.foldl (fun acc r => acc ||| bits r) a).testBit i
      = (a.testBit i || rows.any (fun r => r.getD i false)) := by
  induction rows generalizing a with
  | nil => simp
  | cons r rows ih => simp [ih, Nat.testBit_or, testBit_bits, Bool.or_assoc]

/-- HAVING groupBitOr(...) == 2^n - 1  ⇔ every one of the n conditions holds on some row of the group -/
theorem having_all_bits (n : Nat) (rows : List (List Bool)) (hlen : ∀ r ∈ rows, r.length = n) :
    groupOr rows = 2 ^ n - 1 ↔ ∀ i, i < n → ∃ r ∈ rows, r.getD i false = true := by
  constructor
  · intro h i hi
    have := congrArg (fun x => x.testBit i) h
    simp [groupOr, testBit_foldl_or, Nat.testBit_two_pow_sub_one, hi] at this
    exact this
  · intro h
    apply Nat.eq_of_testBit_eq
    intro i
    simp only [groupOr, testBit_foldl_or, Nat.zero_testBit, Bool.false_or, Nat.testBit_two_pow_sub_one]
    by_cases hi : i < n
    · obtain ⟨r, hr, hb⟩ := h i hi
      simp [hi]
      exact ⟨r, hr, hb⟩
    · simp [hi]
      intro r hr
      have hl := hlen r hr
      have : r[i]? = none := List.getElem?_eq_none (by omega)
      simp [this]

theorem groupOrW_eq (W n : Nat) (rows : List (List Bool)) (hlen : ∀ r ∈ rows, r.length = n) (hn : n ≤ W) :
    groupOrW W rows = groupOr rows := by
  unfold groupOrW groupOr
  generalize (0 : Nat) = a
  induction rows generalizing a with
  | nil => rfl
  | cons r rows ih =>
    simp only [List.foldl_cons]
    rw [bitsW_eq W r (by rw [hlen r List.mem_cons_self]; exact hn)]
    exact ih (fun r' hr' => hlen r' (List.mem_cons_of_mem _ hr')) _

/-- the HAVING test with a `W`-bit shifted operand, for at most `W` conditions -/
theorem having_all_bits_w (W n : Nat) (rows : List (List Bool)) (hlen : ∀ r ∈ rows, r.length = n)
    (hn : n ≤ W) :
    groupOrW W rows = 2 ^ n - 1 ↔ ∀ i, i < n → ∃ r ∈ rows, r.getD i false = true := by
  rw [groupOrW_eq W n rows hlen hn]
  exact having_all_bits n rows hlen

/-- the selection scheme for any row type: WHERE adm ∧ (c₀ ∨ c₁ …) GROUP BY key HAVING groupBitOr(…) == 2ⁿ−1 -/
def bitsetSelect {ρ : Type} (W : Nat) (adm : ρ → Bool) (conds : List (ρ → Bool)) (key : ρ → Nat)
    (tbl : List ρ) : List Nat :=
  let rows := tbl.filter (fun r => adm r && conds.any (fun c => c r))
  ((rows.map key).eraseDups).filter (fun f =>
    groupOrW W ((rows.filter (fun r => key r == f)).map (fun r => conds.map (fun c => c r))) == 2 ^ conds.length - 1)

/-! ### required and forbidden bits (matchers that accept the empty value are asked inverted: their bit must stay 0) -/

theorem bits_lt (bs : List Bool) : bits bs < 2 ^ bs.length := by
  induction bs with
  | nil => simp [bits]
  | cons b bs ih =>
    simp only [bits, List.length_cons, Nat.pow_succ]
    cases b <;> simp <;> omega

theorem bits_eq_zero (bs : List Bool) : bits bs = 0 ↔ bs.any id = false := by
  induction bs with
  | nil => simp [bits]
  | cons b bs ih =>
    cases b
    · simp only [bits, Bool.toNat_false, Nat.zero_add, List.any_cons, id, Bool.false_or]
      rw [← ih]; omega
    · simp only [bits, Bool.toNat_true, List.any_cons, id, Bool.true_or]
      constructor
      · intro h; omega
      · intro h; cases h

/-- HAVING groupBitOr(...) == Σ reqᵢ·2ⁱ ⇔ for every i < n: some row of the group has condition i ⇔ reqᵢ -/
theorem having_bits_eq (n : Nat) (rows : List (List Bool)) (req : List Bool)
    (hlen : ∀ r ∈ rows, r.length = n) (hreq : req.length = n) :
    groupOr rows = bits req ↔ ∀ i, i < n → rows.any (fun r => r.getD i false) = req.getD i false := by
  constructor
  · intro h i _
    have := congrArg (fun x => x.testBit i) h
    simpa [groupOr, testBit_foldl_or, testBit_bits] using this
  · intro h
    apply Nat.eq_of_testBit_eq
    intro i
    simp only [groupOr, testBit_foldl_or, Nat.zero_testBit, Bool.false_or, testBit_bits]
    by_cases hi : i < n
    · exact h i hi
    · have h1 : req.getD i false = false := by
        have : req[i]? = none := List.getElem?_eq_none (by omega)
        simp [List.getD, this]
      rw [h1]
      simp only [List.any_eq_false]
      intro r hr
      have hl := hlen r hr
      have : r[i]? = none := List.getElem?_eq_none (by omega)
      simp [List.getD, this]

/-- Go: `required |= 1 << i` on an `int64`: a shift count ≥ 64 gives 0, bit 63 is the sign -/
def requiredConst (req : List Bool) : Int :=
  let u := bitsW 64 req
  if u < 2 ^ 63 then (u : Int) else (u : Int) - 2 ^ 64

/-- the selection scheme with an optional row filter and any HAVING test on the aggregate:
    WHERE adm ∧ (useOr → c₀ ∨ c₁ …) GROUP BY key HAVING having(groupBitOr(…)) -/
def bitsetSelectGen {ρ : Type} (W : Nat) (adm : ρ → Bool) (conds : List (ρ → Bool)) (useOr : Bool)
    (having : Nat → Bool) (key : ρ → Nat) (tbl : List ρ) : List Nat :=
  let rows := tbl.filter (fun r => adm r && (!useOr || conds.any (fun c => c r)))
  ((rows.map key).eraseDups).filter (fun f =>
    having (groupOrW W ((rows.filter (fun r => key r == f)).map (fun r => conds.map (fun c => c r)))))

end Qryn.Prom.Bits
