import Qryn.Prom.SelectSel
import Qryn.LogQL.PlannerSeries
/-! The Prometheus metadata endpoints as `Sel` terms (C13): model of `QueryLabelsService.PromLabels / PromValues / PromSeries`
    (reader/service/queryLabelsService.go) after `fix: the Prometheus labels, label values and series endpoints select with the
    PromQL matcher semantics`: every `match[]` selector is planned by the PromQL `fingerprintsQuery` (`Prom.fpSel`: the matchers
    as asked of the label index with their `required` bits), the selectors are combined by
    `clickhouse_planner.MultiStreamSelectPlanner` — ONE selector: its statement is the WITH query `fp_sel`; SEVERAL: `fp_sel` is
    their `UNION ALL` (`clickhouse_planner.UnionAll`, a WITH query that is not one select: kept beside the main select, as
    `Prof.UnionStmt` does) — under `SeriesPlanner` / `ValuesPlanner` (the planners of the Loki endpoints, `LogQL.planSeries` /
    `planValues`) or the label-names select `PromLabels` writes itself (`Labels` without selectors).
    C17's `Prom/Labels.lean` models the same statements as TEXT with their meaning over index rows; this file gives them the
    shared `Sel` form so that `Confine.confined` / `signalConfined` apply. Tied byte for byte by C13's `model-promlabels`. -/
namespace Qryn.Prom
open Qryn Qryn.Sql Qryn.LogQL

/-- one `match[]` selector as `fingerprintsQuery` asks it of the index -/
structure PromSel where
  ms : List Matcher
  req : List Bool

/-- a statement of these endpoints: one select, or a main select over `fp_sel = op₀ UNION ALL op₁ …` -/
inductive PromStmt
  | single (s : Sel)
  | union (ops : List Sel) (main : Sel)

def PromStmt.render : PromStmt → Bytes
  | .single s => renderSel s
  | .union ops main =>
    b "WITH fp_sel as (" ++ joinB (b " UNION ALL ") (ops.map renderSelBody) ++ b ")" ++ renderSelBody main

def fpIn_ : Expr := .isIn (.raw "fingerprint") [.withRef (.named "fp_sel")]

/-- `MultiStreamSelectPlanner` under `sql.NewWith(…, "fp_sel")`: `main` is the select without its WITH list (it already carries
    `fingerprint IN fp_sel`) -/
def overFps (c : Ctx) (sels : List PromSel) (main : Sel) : PromStmt :=
  match sels with
  | [p] => .single (main.with_ [(.named "fp_sel", fpSel c p.ms p.req)])
  | _ => .union (sels.map (fun p => fpSel c p.ms p.req)) main

/-- the label-names select of `Labels` / `PromLabels` (`labelsType` written by the service itself, not by `GetTypes`) -/
def labelsMain (c : Ctx) (table : String) (labelsType : Int) (withFp : Bool) : Sel :=
  .mk [] true [.raw "key"] (some (.col (.raw table) "samples")) [] none
    (some (and_ ([.isIn (.raw "type") [.int labelsType, .int 0],
                  ge (.raw "date") (.str (Time.formatFromDate c.fromNs)), le (.raw "date") (.str (toDate c))] ++
                 (if withFp then [fpIn_] else []))))
    [] none [] none

/-- **`PromLabels`** (`sels = []`: `Labels`) -/
def promLabels (c : Ctx) (table : String) (labelsType : Int) (sels : List PromSel) : PromStmt :=
  if sels.isEmpty then .single (labelsMain c table labelsType false)
  else overFps c sels (labelsMain c c.ginTable labelsType true)

/-- **`PromValues`** → `values` → `ValuesPlanner.Process` -/
def promValues (c : Ctx) (key : Bytes) (sels : List PromSel) : PromStmt :=
  if sels.isEmpty then .single ((valuesBase c key).setLimit (LogQL.limitOf c))
  else overFps c sels (((valuesBase c key).andWhere [fpIn_]).setLimit (LogQL.limitOf c))

/-- the select of `SeriesPlanner.Process` without its WITH list -/
def seriesMain (c : Ctx) : Sel :=
  (Sel.mk [] true [simpleCol "labels" "labels"]
    (some (.col (.raw (if c.isCluster then c.tsDistTable else c.tsTable)) "time_series")) [] none
    (some (and_ [ge (.raw "date") (.str (Time.formatFromDate c.fromNs)), le (.raw "date") (.str (toDate c)), fpIn_, getTypes c]))
    [] none [] none).setLimit (LogQL.limitOf c)

/-- **`PromSeries`** → `series` → `SeriesPlanner.Process` (at least one selector: without one the service answers the empty
    list and sends nothing) -/
def promSeries (c : Ctx) (sels : List PromSel) : PromStmt := overFps c sels (seriesMain c)

end Qryn.Prom
