import Qryn.Read.Assembly
import Qryn.Prom.Select
import Qryn.Gen.PromStep
/-! The stepped PromQL sample path: model of `processHints` (reader/promql/transpiler/transpiler.go), which
    `TranspileLabelMatchers` applies exactly when `hints.Step != 0` (a range query; `Gen.PromStep`).

    The raw scan (`InitClickhousePlanner` + `fp_sel`, `Prom.Select`) delivers rows `(fingerprint, value,
    timestamp_ms)` of the selected series inside `[Start, End]`, ordered by (fingerprint, timestamp).
    `processHints` then

    * for `Func == ""` or an instant-vector function (`Gen.PromStep.instantFuncs`), an instant selector (`Range == 0`) and
      a step that divides the engine's lookback delta (`Gen.PromStep.lookbackMs`) wraps that query (after `fix: a stepped
      range query hands the engine the last sample of every step bucket with its own time …`; `Gen.PromStep.bucketTime =
      "sample"`):
      ```sql
      WITH spls AS (raw scan)
      SELECT fingerprint, argMax(spls.value, spls.timestamp_ms) AS value, max(spls.timestamp_ms) AS last_ms
      FROM spls GROUP BY intDiv(spls.timestamp_ms - Start + Step - 1, Step), fingerprint
      ORDER BY fingerprint ASC, last_ms ASC
      ```
      `bucketLast`: one row per (fingerprint, step bucket); bucket k is `(Start+(k−1)·Step, Start+k·Step]`
      (bucket 0 is `{Start}`), the row is the bucket's sample with the greatest timestamp, with its own time.
      As it was written (`bucketTime = "bucket-end"`, `bucket`): for every step and range, the row carried the time of the
      bucket end (`intDiv(…) * Step + Start AS timestamp_ms`, `GROUP BY timestamp_ms`);
    * for a range-vector function (`Gen.PromStep.rangeFuncs`) over a range selector (`Range > 0`,
      `Gen.PromStep.rangeGuard`) with `Step > Range` adds a WHERE condition
      (`keep`): after `fix: the range-vector sample filter …` it is `(timestamp_ms − Start) % Step <= Range`
      (`Gen.PromStep.rangeFilter = "windows"`); the pinned tree had `timestamp_ms % Step == 0 or >= Step − Range`
      (`keepW`).

    ClickHouse semantics written in (trusted): in `GROUP BY timestamp_ms` the unqualified name is the select
    alias (the bucket expression), `spls.timestamp_ms` is the column; `intDiv` on the non-negative numerator
    that occurs (`timestamp_ms ≥ Start`, the scan's lower bound) is the floor; `argMax(v, t)` keeps the first
    row in source order whose `t` is the greatest (ties only arise for two samples of one millisecond).
    Core-only (the driver links this module). -/
namespace Qryn.Prom.Stepped
open Qryn Qryn.Read.Assembly Qryn.Read.Cursor

/-- `storage.SelectHints{Start, End, Step, Range, Func}` (ms) -/
structure Hints where
  start : Int
  stop : Int
  step : Int
  range : Int
  func : String
deriving Repr

/-- `instantVectors[hints.Func] || hints.Func == ""` -/
def isInstant (f : String) : Bool := Gen.PromStep.instantFuncs.contains f || f == ""
/-- `rangeVectors[hints.Func]` -/
def isRangeFn (f : String) : Bool := Gen.PromStep.rangeFuncs.contains f

/-- `intDiv(timestamp_ms - Start + Step - 1, Step) * Step + Start` -/
def bucketEnd (start step ts : Int) : Int := (ts - start + step - 1) / step * step + start

/-- GROUP BY key: (fingerprint, bucket end) -/
abbrev Key := Nat × Int

def keyOf (start step : Int) (r : Row) : Key := (r.fp, bucketEnd start step r.ts)

/-- ORDER BY fingerprint ASC, timestamp_ms ASC (strict part) -/
def keyLt (a b : Key) : Prop := a.1 < b.1 ∨ (a.1 = b.1 ∧ a.2 < b.2)
instance (a b : Key) : Decidable (keyLt a b) := by unfold keyLt; infer_instance

/-- insertion into the ascending duplicate-free list of group keys -/
def insertKey (k : Key) : List Key → List Key
  | [] => [k]
  | x :: xs => if keyLt k x then k :: x :: xs else if k = x then x :: xs else x :: insertKey k xs

/-- the distinct group keys, ascending -/
def keys (start step : Int) (rows : List Row) : List Key :=
  rows.foldr (fun r acc => insertKey (keyOf start step r) acc) []

/-- `argMax(value, timestamp)` over a group in source order: the first row whose timestamp is the greatest -/
def argMax : List Row → Option Row
  | [] => none
  | r :: rs => some (rs.foldl (fun best x => if best.ts < x.ts then x else best) r)

/-- the rows of one group -/
def group (start step : Int) (rows : List Row) (k : Key) : List Row :=
  rows.filter (fun r => keyOf start step r == k)

/-- the per-step aggregation query over the rows of the raw scan -/
def bucket (start step : Int) (rows : List Row) : List Row :=
  (keys start step rows).filterMap (fun k =>
    (argMax (group start step rows k)).map (fun r => ⟨k.1, r.val, k.2⟩))

/-- the per-step aggregation after the fix: the last sample of every (fingerprint, step bucket), as it is stored -/
def bucketLast (start step : Int) (rows : List Row) : List Row :=
  (keys start step rows).filterMap (fun k => argMax (group start step rows k))

/-- `(instantVectors[hints.Func] || hints.Func == "") [&& hints.Range == 0 && lookbackDeltaMs%hints.Step == 0]` -/
def bucketed (h : Hints) : Bool :=
  isInstant h.func &&
    (if Gen.PromStep.bucketTime = "sample" then h.range == 0 && Gen.PromStep.lookbackMs % h.step == 0 else true)

/-- the aggregation the source has now -/
def bucketNow (h : Hints) (rows : List Row) : List Row :=
  if Gen.PromStep.bucketTime = "sample" then bucketLast h.start h.step rows else bucket h.start h.step rows

/-- `rangeVectors[hints.Func] [&& hints.Range > 0] && hints.Step > hints.Range` -/
def filtered (h : Hints) : Bool :=
  isRangeFn h.func && (if Gen.PromStep.rangeGuard = "range-selector" then decide (h.range > 0) else true) &&
    decide (h.step > h.range)

/-- the range filter after the fix: `(timestamp_ms - Start) % Step <= Range` -/
def keep (start step range ts : Int) : Bool := decide ((ts - start) % step ≤ range)

/-- the range filter of the pinned tree: `timestamp_ms % Step == 0 or timestamp_ms % Step >= Step - Range` -/
def keepW (step range ts : Int) : Bool := ts % step == 0 || decide (ts % step ≥ step - range)

/-- the filter the source has now -/
def keepNow (h : Hints) (ts : Int) : Bool :=
  if Gen.PromStep.rangeFilter = "windows" then keep h.start h.step h.range ts else keepW h.step h.range ts

/-- what the sample query returns, given the rows of the raw scan: `TranspileLabelMatchers` = raw scan, then
    `processHints` when `Step != 0` -/
def run (h : Hints) (rows : List Row) : List Row :=
  if h.step = 0 then rows
  else
    let r1 := if bucketed h then bucketNow h rows else rows
    if filtered h then r1.filter (fun r => keepNow h r.ts) else r1

/-! ### SQL text of what `processHints` adds -/

/-- the outer SELECT of the per-step aggregation (after `WITH fp_sel as (…),spls as (raw scan)`) -/
def renderBucket (start step : Int) : Bytes :=
  if Gen.PromStep.bucketTime = "sample" then
    ascii ("SELECT fingerprint, argMax(spls.value, spls.timestamp_ms) as value, max(spls.timestamp_ms) as last_ms FROM spls " ++
      "GROUP BY intDiv(spls.timestamp_ms - " ++ toString start ++ " + " ++ toString step ++ " - 1, " ++ toString step ++
      "), fingerprint ORDER BY fingerprint asc, last_ms asc")
  else
  ascii ("SELECT fingerprint, argMax(spls.value, spls.timestamp_ms) as value, intDiv(spls.timestamp_ms - " ++
    toString start ++ " + " ++ toString step ++ " - 1, " ++ toString step ++ ") * " ++ toString step ++ " + " ++
    toString start ++ " as timestamp_ms FROM spls GROUP BY timestamp_ms, fingerprint ORDER BY fingerprint asc, timestamp_ms asc")

/-- the condition the range filter adds to the WHERE of the raw scan -/
def renderFilter (h : Hints) : Bytes :=
  if Gen.PromStep.rangeFilter = "windows" then
    logical "<=" [ascii ("(timestamp_ms - " ++ toString h.start ++ ") % " ++ toString h.step), ascii (toString h.range)]
  else
    let m := ascii ("timestamp_ms % " ++ toString h.step)
    logical "or" [logical "==" [m, ascii "0"], logical ">=" [m, ascii (toString (h.step - h.range))]]

/-- which of the two additions apply: `(bucketed, filtered)` -/
def shape (h : Hints) : Bool × Bool :=
  if h.step = 0 then (false, false)
  else (bucketed h, filtered h)

/-! ### routing between the raw and the down-sampled path (`CLokiQuerier.transpileLabelMatchers`) -/

/-- `useRawData` -/
def usesRaw (h : Hints) : Bool :=
  let sup := Gen.PromStep.supportedFuncs.lookup h.func
  h.start % Gen.PromStep.downsampleMs != 0 || decide (h.step < Gen.PromStep.downsampleMs) ||
    (decide (h.range > 0) && decide (h.range < Gen.PromStep.downsampleMs)) ||
    !((sup.getD false) || sup.isNone)

/-! ### what the engine asks for (`promql.Engine.populateSeries`, pinned Prometheus v1.8.2-0.20220714 ≈ 2.37)

    For a selector that is not under a sub-query and has no `@` modifier (qryn's engine has `EnableAtModifier: false`)
    the engine passes `Start = start − (range, or the lookback delta for an instant selector) − offset`,
    `End = end − offset`, `Step = interval` (0 for an instant query), `Range = range` and `Func` = the name of the nearest
    enclosing function call or aggregation (`extractFuncFromPath`; `""` when a binary operator comes first or there is
    none). Tied to the real engine by the `hints` stream (every function of `parser.Functions`, every aggregator). -/

/-- the window of a query: `start`, `end`, `interval` in ms (`interval = 0`: instant query, then `start = end`) -/
structure Query where
  start : Int
  stop : Int
  step : Int
deriving Repr

/-- `populateSeries` / `getTimeRangesForSelector` for a selector with range `range` (0 = instant selector), offset `off`,
    under the function / aggregation `func`; `lookback` = the engine's lookback delta (5 min: `LookbackDelta: 0`) -/
def engineHints (q : Query) (lookback range off : Int) (func : String) : Hints :=
  { start := q.start - (if range = 0 then lookback else range) - off,
    stop := q.stop - off, step := q.step, range := range, func := func }

/-- the classes `processHints` distinguishes by `hints.Func` -/
inductive FuncClass
  | instant   -- "" or a function of `instantVectors`: per-step pre-aggregation (when `bucketed`)
  | range     -- a function of `rangeVectors`: window filter when Step > Range
  | other     -- anything else (aggregations, `timestamp`, `quantile_over_time`, `changes`, `histogram_quantile`, …): untouched
deriving DecidableEq, Repr

def classOf (f : String) : FuncClass :=
  if isInstant f then .instant else if isRangeFn f then .range else .other

end Qryn.Prom.Stepped
