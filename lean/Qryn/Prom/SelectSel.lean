import Qryn.LogQL.Planner
import Qryn.Prom.Bits
/-! The statements of the Prometheus remote-read path as `Sel` terms: model of
    reader/promql/transpiler: `TranspileLabelMatchers` (transpiler.go: `InitClickhousePlanner.Process`, `fingerprintsQuery`
    → the LogQL `StreamSelectPlanner`, `processHints`) and `GetLabelMatchersDownsampleRequest`
    (transpilerDownsample.go: `InitDownsamplePlanner`, `StreamSelectCombiner`, `DownsampleHintsPlanner`).
    The matcher list is the one `fingerprintsQuery` asks the label index for (regular expressions already anchored, on both
    paths since `fix: PromQL regular-expression matchers are anchored on the down-sampling path too`; a matcher that accepts
    the empty value already inverted, its `required` bit clear, since `fix: a PromQL matcher that accepts the empty value …`). Column texts follow the Go format strings; C13 ties FROM / PREWHERE / WHERE / WITH of these terms to the
    real statements (stream `model-prom`), which is what confinement reads. -/
namespace Qryn.Prom
open Qryn Qryn.Sql Qryn.LogQL

/-- `storage.SelectHints` (milliseconds) -/
structure Hints where
  startMs : Int
  endMs : Int
  stepMs : Int
  rangeMs : Int
  func : String
deriving Repr

def instantFns : List String :=
  ["abs", "absent", "ceil", "exp", "floor", "ln", "log2", "log10", "round", "scalar", "sgn", "sort", "sqrt",
   "atan", "cos", "cosh", "sin", "sinh", "tan", "tanh", "deg", "rad"]
def rangeFns : List String :=
  ["absent_over_time", "deriv", "idelta", "irate", "rate", "resets", "min_over_time", "max_over_time", "sum_over_time",
   "count_over_time", "stddev_over_time", "stdvar_over_time", "last_over_time", "present_over_time", "delta", "increase",
   "avg_over_time"]

def limitOf (c : Ctx) : Option Expr := if c.limit > 0 then some (.int c.limit) else none

/-- `InitClickhousePlanner.Process` -/
def initRaw (c : Ctx) : Sel :=
  .mk [] false
    [simpleCol "samples.fingerprint" "fingerprint", simpleCol "samples.value" "value",
     simpleCol "intDiv(samples.timestamp_ns, 1000000)" "timestamp_ms"]
    (some (.col (.raw c.samplesTable) "samples")) [] none
    (some (and_ [ge (.raw "samples.timestamp_ns") (.int c.fromNs), le (.raw "samples.timestamp_ns") (.int c.toNs), getTypes c]))
    [] none [.orderBy (.raw "fingerprint") .asc, .orderBy (.raw "samples.timestamp_ns") .asc] (limitOf c)

/-- `fingerprintsQuery` over the matchers asked of the index and their `required` bits: with every bit required (and a
    matcher at all) the shared `StreamSelectPlanner` (`LogQL.streamSelect`, the same term — `fpSel_all_required`),
    otherwise `optionalLabelsQuery`: the OR only if some bit is required, HAVING against the `int64` of the required bits -/
def fpSel (c : Ctx) (ms : List Matcher) (req : List Bool) : Sel :=
  let clauses := ms.map matcherClause
  let r := Bits.requiredConst req
  .mk [] false [.raw "fingerprint"] (some (.raw c.ginTable)) [] none
    (some (and_ ([ge (.raw "date") (.str (Time.formatFromDate c.fromNs)), getTypes c] ++ (if r != 0 then [or_ clauses] else []))))
    [.raw "fingerprint"]
    (if clauses.isEmpty then none else some (and_ [eq (.bitSetAnd clauses) (.int r)])) [] none

/-- `query.AddWith(fp_sel)`, `AndWhere(<col> IN fp_sel)` -/
def withFp (c : Ctx) (ms : List Matcher) (req : List Bool) (col : String) (main : Sel) : Sel :=
  (main.with_ [(.named "fp_sel", fpSel c ms req)]).andWhere [.isIn (.raw col) [.withRef (.named "fp_sel")]]

/-- the step filter both hint planners add for range functions whose step exceeds the range -/
def stepFilter (col : String) (step : Int) (cmp : Expr → Expr → Expr) (bound : Int) : Expr :=
  or_ [eq (.raw (col ++ " % " ++ toString step)) (.int 0), cmp (.raw (col ++ " % " ++ toString step)) (.int bound)]

/-- the lookback delta of the engine the router builds (`const lookbackDeltaMs`) -/
def lookbackMs : Int := 300000

/-- `processHints` (after `fix: a stepped range query hands the engine the last sample of every step bucket with its own time
    …` and `fix: the range-vector sample filter is not applied to the instant selector of a sub-query`) -/
def processHints (h : Hints) (q : Sel) : Sel :=
  let q1 :=
    if (instantFns.contains h.func || h.func == "") && h.rangeMs == 0 && lookbackMs % h.stepMs == 0 then
      (Sel.mk [] false
        [.raw "fingerprint", simpleCol "argMax(spls.value, spls.timestamp_ms)" "value",
         simpleCol "max(spls.timestamp_ms)" "last_ms"]
        (some (.withRef (.named "spls"))) [] none none
        [.raw ("intDiv(spls.timestamp_ms - " ++ toString h.startMs ++ " + " ++ toString h.stepMs ++ " - 1, " ++
           toString h.stepMs ++ ")"), .raw "fingerprint"] none
        [.orderBy (.raw "fingerprint") .asc, .orderBy (.raw "last_ms") .asc] none).with_ [(.named "spls", q)]
    else q
  if rangeFns.contains h.func && decide (h.rangeMs > 0) && decide (h.stepMs > h.rangeMs) then
    -- after `fix: the range-vector sample filter follows the windows the engine evaluates`
    q1.andWhere [le (.raw ("(timestamp_ms - " ++ toString h.startMs ++ ") % " ++ toString h.stepMs)) (.int h.rangeMs)]
  else q1

/-- **`TranspileLabelMatchers`** -/
def transpileRaw (c : Ctx) (h : Hints) (ms : List Matcher) (req : List Bool) : Sel :=
  let q := withFp c ms req "samples.fingerprint" (initRaw c)
  if h.stepMs = 0 then q else processHints h q

/-- `InitDownsamplePlanner.Process` -/
def initDown (c : Ctx) (m15 : String) : Sel :=
  .mk [] false
    [simpleCol "samples.fingerprint" "fingerprint", simpleCol "argMaxMerge(samples.last)" "value",
     simpleCol "intDiv(samples.timestamp_ns, 1000000)" "timestamp_ms"]
    (some (.col (.raw m15) "samples")) [] none
    (some (and_ [ge (.raw "samples.timestamp_ns") (.int c.fromNs), le (.raw "samples.timestamp_ns") (.int c.toNs), getTypes c]))
    [.raw "timestamp_ms", .raw "fingerprint"] none
    [.orderBy (.raw "fingerprint") .asc, .orderBy (.raw "timestamp_ms") .asc] (limitOf c)

/-- `DownsampleHintsPlanner.getValueMerge`, `Partial = false` -/
def valueMerge (fn : String) : String :=
  ([("absent_over_time", "1"), ("min_over_time", "min(min)"), ("max_over_time", "max(max)"), ("sum_over_time", "sum(sum)"),
    ("count_over_time", "countMerge(count)"), ("last_over_time", "argMaxMerge(samples.last)"), ("present_over_time", "1"),
    ("avg_over_time", "sum(sum) / countMerge(count)")].lookup fn).getD "argMaxMerge(samples.last)"

/-- `patchField` -/
def patchField (cols : List Expr) (name : String) (e : Expr) : List Expr :=
  cols.map (fun | .col x a => if a == name then e else .col x a | c => c)

/-- `DownsampleHintsPlanner.Process` -/
def downHints (h : Hints) (q : Sel) : Sel :=
  if h.stepMs = 0 then q
  else
    let q := q.setCols (patchField q.cols "value" (simpleCol (valueMerge h.func) "value"))
    if rangeFns.contains h.func && decide (h.stepMs > h.rangeMs) then
      (q.setCols (patchField q.cols "timestamp_ms"
        (simpleCol ("intDiv(samples.timestamp_ns + " ++ toString h.rangeMs ++ "000000, " ++ toString h.stepMs ++
          " * 1000000) * " ++ toString h.stepMs ++ " - 1") "timestamp_ms"))).andWhere
        [or_ [eq (.raw ("timestamp_ns % " ++ toString h.stepMs ++ "000000")) (.int 0),
              gt (.raw ("timestamp_ns % " ++ toString h.stepMs ++ "000000")) (.int (h.stepMs * 1000000 - h.rangeMs * 1000000))]]
    else
      q.setCols (patchField q.cols "timestamp_ms"
        (simpleCol ("intDiv(samples.timestamp_ns, " ++ toString h.stepMs ++ " * 1000000) * " ++ toString h.stepMs ++ " - 1") "timestamp_ms"))

/-- **`GetLabelMatchersDownsampleRequest`** -/
def transpileDown (c : Ctx) (m15 : String) (h : Hints) (ms : List Matcher) (req : List Bool) : Sel :=
  downHints h (withFp c ms req "fingerprint" (initDown c m15))

end Qryn.Prom
