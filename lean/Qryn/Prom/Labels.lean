import Qryn.Prom.Select
/-! The Prometheus metadata endpoints: model of `QueryLabelsService.PromLabels / PromValues / PromSeries`
    (reader/service/queryLabelsService.go; controllers `PromQueryLabelsController.PromLabels / LabelValues / Series`),
    after `fix: the Prometheus labels, label values and series endpoints select with the PromQL matcher semantics`:

    * every `match[]` selector is parsed by Prometheus' `parser.ParseMetricSelector` and planned by the PromQL
      `fingerprintsQuery` (`transpiler.StreamSelectPlanner`), the selectors are combined by
      `clickhouse_planner.MultiStreamSelectPlanner` (one selector: its query; several: `UNION ALL`) — `FpUnion`;
    * `/api/v1/labels`: `SELECT DISTINCT key FROM time_series_gin as samples WHERE type IN (2,0) AND date ≥ from AND
      date ≤ to [AND fingerprint IN fp_sel]`;
    * `/api/v1/label/<name>/values`: `clickhouse_planner.ValuesPlanner` — `SELECT DISTINCT val FROM time_series_gin WHERE
      date ≥ from AND date ≤ to AND key = name AND type IN (2,0) [AND fingerprint IN fp_sel] LIMIT 10000`;
    * `/api/v1/series`: `clickhouse_planner.SeriesPlanner` — `SELECT DISTINCT labels FROM time_series WHERE date ≥ from AND
      date ≤ to AND fingerprint IN fp_sel AND type IN (2,0) LIMIT 10000`.
    `from`/`to` are the date strings (`FormatFromDate(start)`, the UTC date of `end`; their arithmetic belongs to C13),
    compared byte-wise as ClickHouse compares `Date` with a `YYYY-MM-DD` literal. `eval` is the meaning over the rows of
    `time_series_gin` / `time_series`, `render` the SQL text (compared byte for byte with the real statements). Core-only. -/
namespace Qryn.Prom.Labels
open Qryn Qryn.Prom

/-- one row of `time_series`: the label set as the stored JSON document -/
structure TsRow where
  date : Bytes
  fp : Nat
  labels : Bytes
  type : Int
deriving DecidableEq, Repr

def allSome {α : Type} : List (Option α) → Option (List α)
  | [] => some []
  | none :: _ => none
  | some a :: rest => (allSome rest).map (a :: ·)

/-- the fingerprints planner of a `match[]` list -/
structure FpUnion where
  qs : List FpQuery

/-- `promFingerprints`: one `fingerprintsQuery` per selector (`none` = a planner error) -/
def fpUnion (full : Bytes → Bytes → Bool) (table : String) (fromDate : Bytes) (tp : Int) (sels : List (List Matcher)) :
    Option FpUnion :=
  (allSome (sels.map (fingerprintsQuery full table fromDate tp))).map FpUnion.mk

/-- `UNION ALL`: the results one after the other (a fingerprint selected by two selectors occurs twice) -/
def FpUnion.eval (re : Bytes → Bytes → Bool) (W : Nat) (u : FpUnion) (tbl : List IdxRow) : List Nat :=
  u.qs.flatMap (·.eval re W tbl)

def FpUnion.render (u : FpUnion) : Bytes := joinWith (ascii " UNION ALL ") (u.qs.map FpQuery.render)

/-- the window and type filter shared by the three statements -/
structure Win where
  fromDate : Bytes
  toDate : Bytes
  tp : Int

def Win.dateOk (w : Win) (d : Bytes) : Bool := cmpBytes (fnOf "Ge") d w.fromDate && cmpBytes (fnOf "Le") d w.toDate
def Win.typeOk (w : Win) (t : Int) : Bool := t == w.tp || t == 0

/-- `fingerprint IN fp_sel` (no selector list: no such condition) -/
def selOk (sel : Option (List Nat)) (fp : Nat) : Bool :=
  match sel with
  | none => true
  | some fps => fps.contains fp

def limited (limit : Nat) (l : List Bytes) : List Bytes := if limit > 0 then l.take limit else l

/-- `/api/v1/labels` -/
def namesEval (w : Win) (sel : Option (List Nat)) (tbl : List IdxRow) : List Bytes :=
  ((tbl.filter (fun r => w.typeOk r.type && w.dateOk r.date && selOk sel r.fp)).map (·.key)).eraseDups

/-- `/api/v1/label/<name>/values` -/
def valuesEval (w : Win) (limit : Nat) (name : Bytes) (sel : Option (List Nat)) (tbl : List IdxRow) : List Bytes :=
  limited limit
    ((tbl.filter (fun r => w.dateOk r.date && cmpBytes (fnOf "Eq") r.key name && w.typeOk r.type && selOk sel r.fp)).map (·.val)).eraseDups

/-- `/api/v1/series` -/
def seriesEval (w : Win) (limit : Nat) (fps : List Nat) (ts : List TsRow) : List Bytes :=
  limited limit
    ((ts.filter (fun r => w.dateOk r.date && fps.contains r.fp && w.typeOk r.type)).map (·.labels)).eraseDups

/-! ### SQL text -/

def typeIn (tp : Int) : Bytes := ascii "type IN (" ++ ascii (toString tp) ++ ascii ",0)"
def dateGe (d : Bytes) : Bytes := logical (fnOf "Ge") [ascii "date", Sql.quote d]
def dateLe (d : Bytes) : Bytes := logical (fnOf "Le") [ascii "date", Sql.quote d]
def withFp (u : Option FpUnion) : Bytes :=
  match u with
  | none => []
  | some u => ascii "WITH fp_sel as ( " ++ u.render ++ ascii ") "
def inFp (u : Option FpUnion) : List Bytes :=
  match u with
  | none => []
  | some _ => [ascii "fingerprint IN (fp_sel)"]
def limitText (limit : Nat) : Bytes := if limit > 0 then ascii " LIMIT " ++ ascii (toString limit) else []

/-- `PromLabels` (without selectors `Labels`: the same statement without WITH and without the IN) -/
def namesRender (gin : String) (w : Win) (u : Option FpUnion) : Bytes :=
  withFp u ++ ascii "SELECT DISTINCT key FROM " ++ ascii gin ++ ascii " as samples WHERE " ++
    logical "and" ([typeIn w.tp, dateGe w.fromDate, dateLe w.toDate] ++ inFp u)

/-- `ValuesPlanner.Process` -/
def valuesRender (gin : String) (w : Win) (limit : Nat) (name : Bytes) (u : Option FpUnion) : Bytes :=
  withFp u ++ ascii "SELECT DISTINCT val FROM " ++ ascii gin ++ ascii " WHERE " ++
    logical "and" ([dateGe w.fromDate, dateLe w.toDate, logical (fnOf "Eq") [ascii "key", Sql.quote name], typeIn w.tp] ++ inFp u) ++
    limitText limit

/-- `SeriesPlanner.Process` -/
def seriesRender (tsTable : String) (w : Win) (limit : Nat) (u : FpUnion) : Bytes :=
  withFp (some u) ++ ascii "SELECT DISTINCT labels as labels FROM " ++ ascii tsTable ++ ascii " as time_series WHERE " ++
    logical "and" [dateGe w.fromDate, dateLe w.toDate, ascii "fingerprint IN (fp_sel)", typeIn w.tp] ++
    limitText limit

end Qryn.Prom.Labels
