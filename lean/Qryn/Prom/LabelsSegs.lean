import Qryn.Prom.Labels
import Qryn.Prom.SelectSegs
/-! C10: the SQL text of the Prometheus metadata statements (`Prom/Labels.lean`: `namesRender`, `valuesRender`,
    `seriesRender`, with the `fp_sel` WITH entry `FpUnion.render`) as segment lists. The date bounds and the label name
    of `/label/<name>/values` are string leaves exactly where the render functions call `Sql.quote`; every matcher name,
    value and regular expression is a leaf through `FpQuery.segs`. `Proofs/PromLabelsClosed.lean` shows
    `renderSegs (…Segs …) = …Render …` and that the raw parts are closed. -/
namespace Qryn.Prom.Labels
open Qryn Qryn.Sql Qryn.Prom

/-- `UNION ALL` of the selector queries -/
def FpUnion.segs (u : FpUnion) : List Seg := joinS (ascii " UNION ALL ") (u.qs.map FpQuery.segs)

def typeInS (tp : Int) : List Seg := [.raw (ascii "type IN (" ++ ascii (toString tp) ++ ascii ",0)")]
def dateGeS (d : Bytes) : List Seg := logicalS (fnOf "Ge") [[.raw (ascii "date")], [.str d]]
def dateLeS (d : Bytes) : List Seg := logicalS (fnOf "Le") [[.raw (ascii "date")], [.str d]]
def withFpS (u : Option FpUnion) : List Seg :=
  match u with
  | none => []
  | some u => [.raw (ascii "WITH fp_sel as ( ")] ++ u.segs ++ [.raw (ascii ") ")]
def inFpS (u : Option FpUnion) : List (List Seg) :=
  match u with
  | none => []
  | some _ => [[.raw (ascii "fingerprint IN (fp_sel)")]]
def limitS (limit : Nat) : List Seg := if limit > 0 then [.raw (ascii " LIMIT " ++ ascii (toString limit))] else []

/-- `namesRender` -/
def namesSegs (gin : String) (w : Win) (u : Option FpUnion) : List Seg :=
  withFpS u ++ [.raw (ascii "SELECT DISTINCT key FROM " ++ ascii gin ++ ascii " as samples WHERE ")] ++
    logicalS "and" ([typeInS w.tp, dateGeS w.fromDate, dateLeS w.toDate] ++ inFpS u)

/-- `valuesRender`: the label name is a leaf -/
def valuesSegs (gin : String) (w : Win) (limit : Nat) (name : Bytes) (u : Option FpUnion) : List Seg :=
  withFpS u ++ [.raw (ascii "SELECT DISTINCT val FROM " ++ ascii gin ++ ascii " WHERE ")] ++
    logicalS "and" ([dateGeS w.fromDate, dateLeS w.toDate, logicalS (fnOf "Eq") [[.raw (ascii "key")], [.str name]],
      typeInS w.tp] ++ inFpS u) ++
    limitS limit

/-- `seriesRender` -/
def seriesSegs (tsTable : String) (w : Win) (limit : Nat) (u : FpUnion) : List Seg :=
  withFpS (some u) ++ [.raw (ascii "SELECT DISTINCT labels as labels FROM " ++ ascii tsTable ++ ascii " as time_series WHERE ")] ++
    logicalS "and" [dateGeS w.fromDate, dateLeS w.toDate, [.raw (ascii "fingerprint IN (fp_sel)")], typeInS w.tp] ++
    limitS limit

end Qryn.Prom.Labels
