import Qryn.Prom.Bits
import Qryn.Gen.PromSelect
import Qryn.Sql.Escape
/-! Matcher selection: model of `fingerprintsQuery` (reader/promql/transpiler/shared.go) =
    `parser.LabelMatcher.GetOp` + `StreamSelectPlanner.Process` (+ `SqlBitSetAnd.String`) over Prometheus
    label matchers, and of the bounds of the raw-sample scan (`InitClickhousePlanner.Process`).

    * the operator tables come from `Gen.PromSelect` (regenerated from the Go switches on every run);
    * `fingerprintsQuery ms` is the query as a structure: the list of per-matcher conditions, used both by the
      WHERE (`or` of all) and by the HAVING bit set; `FpQuery.eval` is its meaning over the rows of the label
      index `time_series_gin` (date, key, val, fingerprint, type), with ClickHouse's typing of `bitShiftLeft`;
    * `FpQuery.render` is its SQL text exactly as `sql_select` prints it (compared byte for byte with the
      `fp_sel` sub-query `TranspileLabelMatchers` emits).
    * a matcher that accepts the empty value (`_matcher.Matches("")`) is handed to the index **inverted** and its bit must
      stay clear (`required`; after `fix: a PromQL matcher that accepts the empty value …`): a series has no index row
      for a label it lacks, and Prometheus reads a missing label as the empty value.
    `re pat s` stands for ClickHouse `match(s, pat)` (RE2, unanchored search), `full pat s` for "s matches ^(?:pat)$" in the
    regular-expression engine of the Go side (`labels.FastRegexMatcher`); both are parameters. Core-only. -/
namespace Qryn.Prom
open Qryn Qryn.Prom.Bits

/-- `labels.MatchType` -/
inductive MatchType
  | eq | ne | re | nre
deriving DecidableEq, Repr

def MatchType.goName : MatchType → String
  | .eq => "MatchEqual" | .ne => "MatchNotEqual" | .re => "MatchRegexp" | .nre => "MatchNotRegexp"

/-- `labels.Matcher{Type, Name, Value}` -/
structure Matcher where
  name : Bytes
  type : MatchType
  val : Bytes
deriving DecidableEq, Repr

/-- `labels.Matcher.Inverse` -/
def MatchType.inverse : MatchType → MatchType
  | .eq => .ne | .ne => .eq | .re => .nre | .nre => .re

def opHolds (re : Bytes → Bytes → Bool) (t : MatchType) (have_ want : Bytes) : Bool :=
  match t with
  | .eq => have_ == want | .ne => have_ != want | .re => re want have_ | .nre => !(re want have_)

/-- `_matcher.Matches("")` in `fingerprintsQuery`: the matcher accepts the empty value, i.e. a series without the label.
    `Gen.PromSelect.absentLabel` says whether the source has that test at all (`"inverse"`) or asks a row of every
    matcher (`"row-required"`, the code as it was written). -/
def acceptsEmpty (full : Bytes → Bytes → Bool) (m : Matcher) : Bool :=
  Gen.PromSelect.absentLabel == "inverse" && opHolds full m.type [] m.val

/-- the matcher the label index is asked for: the inverse of a matcher that accepts the empty value -/
def asked (full : Bytes → Bytes → Bool) (m : Matcher) : Matcher :=
  if acceptsEmpty full m then { m with type := m.type.inverse } else m

/-- `parser.LabelMatcher.GetOp` -/
def getOp (t : MatchType) : String :=
  (Gen.PromSelect.matchTypeOps.lookup t.goName).getD Gen.PromSelect.matchTypeDefault

/-- operator rendered by a `sql_select` comparison constructor -/
def fnOf (ctor : String) : String := (Gen.PromSelect.cmpFns.lookup ctor).getD "?"

/-- one row of the label index -/
structure IdxRow where
  date : Bytes
  key : Bytes
  val : Bytes
  fp : Nat
  type : Int
deriving DecidableEq, Repr

def IdxRow.get (r : IdxRow) (col : String) : Bytes :=
  if col = "key" then r.key else if col = "val" then r.val else if col = "date" then r.date else []

/-- conditions the planner builds -/
inductive Cond
  | cmpStr (fn : String) (col : String) (s : Bytes)                 -- (col) fn ('s')
  | cmpMatch (fn : String) (col : String) (pat : Bytes) (k : Int)   -- (match(col, 'pat')) fn (k)
  | and2 (a b : Cond)                                               -- (a) and (b)
deriving Repr

/-- byte-wise (lexicographic) `≤`, ClickHouse's order on String -/
def bytesLe : Bytes → Bytes → Bool
  | [], _ => true
  | _ :: _, [] => false
  | a :: as, b :: bs => a < b || (a == b && bytesLe as bs)

def cmpBytes (fn : String) (a b : Bytes) : Bool :=
  if fn = "==" then a == b else if fn = "!=" then a != b
  else if fn = ">=" then bytesLe b a else if fn = "<=" then bytesLe a b
  else if fn = ">" then !bytesLe a b else if fn = "<" then !bytesLe b a else false

def cmpInt (fn : String) (a b : Int) : Bool :=
  if fn = "==" then a == b else if fn = "!=" then a != b
  else if fn = ">=" then decide (a ≥ b) else if fn = "<=" then decide (a ≤ b)
  else if fn = ">" then decide (a > b) else if fn = "<" then decide (a < b) else false

def Cond.eval (re : Bytes → Bytes → Bool) (r : IdxRow) : Cond → Bool
  | .cmpStr fn col s => cmpBytes fn (r.get col) s
  | .cmpMatch fn col pat k => cmpInt fn (if re pat (r.get col) then 1 else 0) k
  | .and2 a b => a.eval re r && b.eval re r

def ascii (s : String) : Bytes := s.toList.map (fun c => UInt8.ofNat c.toNat)

/-- `"^(?:" + val + ")$"` (whatever prefix/suffix `fingerprintsQuery` uses) -/
def anchor (v : Bytes) : Bytes := ascii Gen.PromSelect.valuePrefix ++ v ++ ascii Gen.PromSelect.valueSuffix

/-- the value `fingerprintsQuery` hands to the planner: regular expressions are anchored -/
def matcherVal (m : Matcher) : Bytes :=
  if Gen.PromSelect.anchoredTypes.contains m.type.goName then anchor m.val else m.val

/-- `clauses[i]` of `StreamSelectPlanner.Process` for one matcher (`none` = NotSupportedError) -/
def condOf (m : Matcher) : Option Cond :=
  match Gen.PromSelect.opClauses.lookup (getOp m.type) with
  | none => none
  | some (fn, isMatch, k) =>
    some (.and2 (.cmpStr (fnOf "Eq") "key" m.name)
      (if isMatch then .cmpMatch fn "val" (matcherVal m) k else .cmpStr fn "val" (matcherVal m)))

def condsOf : List Matcher → Option (List Cond)
  | [] => some []
  | m :: ms => match condOf m, condsOf ms with
    | some c, some cs => some (c :: cs)
    | _, _ => none

/-- `fpRequest`: SELECT fingerprint FROM table WHERE date ≥ from AND type IN (tp, 0) [AND (c₀ OR c₁ …)]
    GROUP BY fingerprint [HAVING groupBitOr(Σ bitShiftLeft(cᵢ, i)) == required];
    `required i` = matcher i needs a row (bit i of the Go `required`), otherwise `cᵢ` is the inverted matcher and its
    bit has to stay clear. The OR is there iff some bit is required, the HAVING iff there is a matcher at all. -/
structure FpQuery where
  table : String
  fromDate : Bytes
  tp : Int
  conds : List Cond
  required : List Bool

/-- Go: `int64((1<<len(clauses))-1)`; a shift count ≥ 64 gives 0 -/
def havingConst (n : Nat) : Int := if n ≤ 63 then (2 : Int) ^ n - 1 else -1

/-- **`fingerprintsQuery`**: every matcher that accepts the empty value inverted, its bit not required. With every bit
    required (and a matcher at all) the Go code calls the shared `StreamSelectPlanner` (`required = (1<<n)−1`, the same
    text — the `fpsql` stream compares both paths with this one rendering), otherwise `optionalLabelsQuery`. -/
def fingerprintsQuery (full : Bytes → Bytes → Bool) (table : String) (fromDate : Bytes) (tp : Int) (ms : List Matcher) :
    Option FpQuery :=
  (condsOf (ms.map (asked full))).map (fun cs =>
    { table := table, fromDate := fromDate, tp := tp, conds := cs, required := ms.map (fun m => !acceptsEmpty full m) })

/-- `if required != 0 { fpRequest.AndWhere(sql.Or(clauses...)) }` -/
def FpQuery.useOr (q : FpQuery) : Bool := requiredConst q.required != 0

def FpQuery.admits (q : FpQuery) (r : IdxRow) : Bool :=
  cmpBytes (fnOf "Ge") r.date q.fromDate && (r.type == q.tp || r.type == 0)

def FpQuery.whereHolds (re : Bytes → Bytes → Bool) (q : FpQuery) (r : IdxRow) : Bool :=
  q.admits r && (!q.useOr || q.conds.any (·.eval re r))

def distinctFps (rows : List IdxRow) : List Nat := (rows.map (·.fp)).eraseDups

/-- meaning of the query over the index rows; `W` = bit width of the operand of `bitShiftLeft`; without a matcher
    there is neither the OR nor the HAVING -/
def FpQuery.eval (re : Bytes → Bytes → Bool) (W : Nat) (q : FpQuery) (tbl : List IdxRow) : List Nat :=
  if q.conds.isEmpty then distinctFps (tbl.filter q.admits)
  else bitsetSelectGen W q.admits (q.conds.map (fun c r => c.eval re r)) q.useOr
    (fun x => ((x : Nat) : Int) == requiredConst q.required) (·.fp) tbl

/-! ### the direct reading -/

/-- an index row (one label pair of a series) satisfies a matcher, `re` being ClickHouse `match` applied
    to the value as `fingerprintsQuery` passes it on -/
def rowSatisfies (re : Bytes → Bytes → Bool) (m : Matcher) (r : IdxRow) : Bool :=
  r.key == m.name && opHolds re m.type r.val (matcherVal m)

def admissible (fromDate : Bytes) (tp : Int) (r : IdxRow) : Bool :=
  bytesLe fromDate r.date && (r.type == tp || r.type == 0)

/-! ### SQL text -/

def paren (b : Bytes) : Bytes := 40 :: b ++ [41]

def joinWith (sep : Bytes) : List Bytes → Bytes
  | [] => []
  | [x] => x
  | x :: xs => x ++ sep ++ joinWith sep xs

/-- `LogicalOp.String`: every operand parenthesised, joined by " fn " -/
def logical (fn : String) (parts : List Bytes) : Bytes :=
  joinWith (ascii (" " ++ fn ++ " ")) (parts.map paren)

def Cond.render : Cond → Bytes
  | .cmpStr fn col s => logical fn [ascii col, Sql.quote s]
  | .cmpMatch fn col pat k =>
    logical fn [ascii "match(" ++ ascii col ++ ascii ", " ++ Sql.quote pat ++ ascii ")", ascii (toString k)]
  | .and2 a b => logical "and" [a.render, b.render]

def indexed {α : Type} (l : List α) : List (Nat × α) := (List.range l.length).zip l

/-- `SqlBitSetAnd.String` -/
def renderBitSet (cs : List Cond) : Bytes :=
  let cast := Gen.PromSelect.shiftCast
  let term (p : Nat × Cond) : Bytes :=
    ascii "bitShiftLeft(" ++ (if cast = "" then p.2.render else ascii (cast ++ "(") ++ p.2.render ++ ascii ")")
      ++ ascii ", " ++ ascii (toString p.1) ++ ascii ")"
  ascii "groupBitOr(" ++ joinWith (ascii " + ") ((indexed cs).map term) ++ ascii ")"

/-- the text of the sub-query (single spaces between clauses) -/
def FpQuery.render (q : FpQuery) : Bytes :=
  ascii "SELECT fingerprint FROM " ++ ascii q.table ++ ascii " WHERE " ++
    logical "and" ([logical (fnOf "Ge") [ascii "date", Sql.quote q.fromDate],
                    ascii "type IN (" ++ ascii (toString q.tp) ++ ascii ",0)"] ++
                   (if q.useOr then [logical "or" (q.conds.map Cond.render)] else [])) ++
    ascii " GROUP BY fingerprint" ++
    (if q.conds.isEmpty then [] else
      ascii " HAVING " ++
      logical "and" [logical (fnOf "Eq") [renderBitSet q.conds, ascii (toString (requiredConst q.required))]])

/-! ### the raw-sample scan (`InitClickhousePlanner.Process`) -/

/-- `samples.timestamp_ns <lower> From AND samples.timestamp_ns <upper> To` -/
def scanHolds (fromNs toNs ts : Int) : Bool :=
  cmpInt Gen.PromSelect.scanLower ts fromNs && cmpInt Gen.PromSelect.scanUpper ts toNs

def renderScan (fromNs toNs : Int) : Bytes :=
  logical "and" [logical Gen.PromSelect.scanLower [ascii "samples.timestamp_ns", ascii (toString fromNs)],
                 logical Gen.PromSelect.scanUpper [ascii "samples.timestamp_ns", ascii (toString toNs)]]

/-! ### stored series and Prometheus' reading of a matcher -/

/-- a stored series: its row in `time_series` and, per label, one row in `time_series_gin` -/
structure Stored where
  fp : Nat
  labels : List (Bytes × Bytes)
  date : Bytes
  type : Int
deriving Repr

def indexRows (db : List Stored) : List IdxRow :=
  db.flatMap (fun s => s.labels.map (fun kv => ⟨s.date, kv.1, kv.2, s.fp, s.type⟩))

/-- Prometheus: the value of a label, empty when the series does not have it -/
def labelValue (ls : List (Bytes × Bytes)) (name : Bytes) : Bytes := (ls.lookup name).getD []

/-- `labels.Matcher.Matches` on every matcher; `full pat s` = "s matches ^(?:pat)$" -/
def promMatches (full : Bytes → Bytes → Bool) (ms : List Matcher) (s : Stored) : Bool :=
  ms.all (fun m => opHolds full m.type (labelValue s.labels m.name) m.val)

def admissibleS (fromDate : Bytes) (tp : Int) (s : Stored) : Bool :=
  bytesLe fromDate s.date && (s.type == tp || s.type == 0)

end Qryn.Prom
