import Qryn.Prom.Stepped
/-! The down-sampled PromQL sample path: model of `TranspileLabelMatchersDownsample`
    (reader/promql/transpiler/transpilerDownsample.go) = `InitDownsamplePlanner` + `StreamSelectCombiner`
    (the selector is `fingerprintsQuery`, `Gen.PromStep.downSelector`) + `DownsampleHintsPlanner`, which
    `CLokiQuerier.transpileLabelMatchers` takes when `Stepped.usesRaw` is false (Start a multiple of 15 s,
    Step ≥ 15 s, Range 0 or ≥ 15 s, function supported or unknown), and of `MapResult` for `count_over_time`.

    The table `metrics_15s` holds, per series and 15 s bucket `[b, b+15 s)` (`timestamp_ns = b·10⁶`, b a multiple
    of 15 000 ms), aggregate states of the samples of that bucket (`ctrl/qryn/sql/log.sql`, the materialized view
    `metrics_15s_mv`): `last` (argMax state: value of the latest sample and its time), `min`, `max`, `sum`, `count`.

    ```sql
    SELECT samples.fingerprint AS fingerprint, <valueMerge(Func)> AS value, <time> AS timestamp_ms
    FROM metrics_15s AS samples
    WHERE samples.timestamp_ns >= From AND samples.timestamp_ns <= To AND type IN (…) AND fingerprint IN (fp_sel)
          [AND (timestamp_ns % Step·10⁶ == 0 OR timestamp_ns % Step·10⁶ > (Step − Range)·10⁶)]
    GROUP BY timestamp_ms, fingerprint ORDER BY fingerprint ASC, timestamp_ms ASC
    ```
    with `<time> = intDiv(timestamp_ns, Step·10⁶)·Step − 1`, or `intDiv(timestamp_ns + Range·10⁶, Step·10⁶)·Step − 1`
    with the bracketed filter, for a range-vector function with `Step > Range`.
    Values are integers here (the harness stores integral samples); `avg_over_time` is the pair (sum, count).
    Core-only. -/
namespace Qryn.Prom.Downsample
open Qryn Qryn.Prom.Stepped Qryn.Read.Assembly Qryn.Read.Cursor

/-- one row of `metrics_15s` (times in ms; the table stores ns) -/
structure Agg where
  fp : Nat
  b : Int          -- bucket start
  lastV : Int      -- `last`: value …
  lastTs : Int     -- … and time (ns in the table; any strictly monotone image will do) of the latest sample
  mn : Int
  mx : Int
  sum : Int
  count : Int
deriving DecidableEq, Repr

/-- an output row: `value = num / den` (den = 1 except for `avg_over_time`) -/
structure DRow where
  fp : Nat
  ts : Int
  num : Int
  den : Int
deriving DecidableEq, Repr

def ns (ms : Int) : Int := ms * 1000000

/-- WHERE on `samples.timestamp_ns` -/
def scanHoldsD (h : Hints) (a : Agg) : Bool :=
  cmpInt Gen.PromStep.downLower (ns a.b) (ns h.start) && cmpInt Gen.PromStep.downUpper (ns a.b) (ns h.stop)

/-- `rangeVectors[hints.Func] && hints.Step > hints.Range` (the planner's own copy of the table) -/
def filtered (h : Hints) : Bool := Gen.PromStep.downRangeFuncs.contains h.func && decide (h.step > h.range)

/-- `timestamp_ns % Step·10⁶ == 0 or > (Step − Range)·10⁶` -/
def keepD (h : Hints) (a : Agg) : Bool :=
  ns a.b % ns h.step == 0 || decide (ns a.b % ns h.step > ns h.step - ns h.range)

/-- the `timestamp_ms` expression -/
def timeOf (h : Hints) (a : Agg) : Int :=
  if h.step = 0 then ns a.b / 1000000
  else if filtered h then (ns a.b + ns h.range) / (h.step * 1000000) * h.step - 1
  else ns a.b / (h.step * 1000000) * h.step - 1

/-- the value column `getValueMerge(Func)` names -/
def valueCol (f : String) : String := (Gen.PromStep.valueMerge.lookup f).getD Gen.PromStep.valueMergeDefault

def sumBy (f : Agg → Int) (g : List Agg) : Int := g.foldl (fun acc a => acc + f a) 0
def minBy (f : Agg → Int) : List Agg → Int
  | [] => 0
  | a :: as => as.foldl (fun acc x => if f x < acc then f x else acc) (f a)
def maxBy (f : Agg → Int) : List Agg → Int
  | [] => 0
  | a :: as => as.foldl (fun acc x => if f x > acc then f x else acc) (f a)
/-- `argMaxMerge(last)`: the value of the state with the greatest time (the first one, on a tie) -/
def lastOf : List Agg → Int
  | [] => 0
  | a :: as => (as.foldl (fun best x => if best.lastTs < x.lastTs then x else best) a).lastV

/-- meaning of a value column over the rows of one group: (numerator, denominator); `none` = not modelled -/
def evalCol (col : String) (g : List Agg) : Option (Int × Int) :=
  if col = "1" then some (1, 1)
  else if col = "min(min)" then some (minBy (·.mn) g, 1)
  else if col = "max(max)" then some (maxBy (·.mx) g, 1)
  else if col = "sum(sum)" then some (sumBy (·.sum) g, 1)
  else if col = "countMerge(count)" then some (sumBy (·.count) g, 1)
  else if col = "argMaxMerge(samples.last)" then some (lastOf g, 1)
  else if col = "sum(sum) / countMerge(count)" then some (sumBy (·.sum) g, sumBy (·.count) g)
  else none

def keyD (h : Hints) (a : Agg) : Key := (a.fp, timeOf h a)

def keysD (h : Hints) (rows : List Agg) : List Key := rows.foldr (fun a acc => insertKey (keyD h a) acc) []

/-- the rows the WHERE keeps (the series selection `fingerprint IN (fp_sel)` is applied before: `rows` are the
    `metrics_15s` rows of the selected series with an admitted type) -/
def scanned (h : Hints) (rows : List Agg) : List Agg :=
  rows.filter (fun a => scanHoldsD h a && (if h.step ≠ 0 && filtered h then keepD h a else true))

/-- the query -/
def down (h : Hints) (rows : List Agg) : Option (List DRow) :=
  let col := if h.step = 0 then Gen.PromStep.valueMergeDefault else valueCol h.func
  let src := scanned h rows
  (keysD h src).foldr (fun k acc =>
    match evalCol col (src.filter (fun a => keyD h a == k)), acc with
    | some v, some rest => some (⟨k.1, k.2, v.1, v.2⟩ :: rest)
    | _, _ => none) (some [])

/-- `MapResult` of `TranspileLabelMatchersDownsample` for `count_over_time`: a sample of value n becomes n samples
    of value 1 at the same time; every other function: unchanged -/
def mapResult (f : String) (rows : List DRow) : List DRow :=
  if f = "count_over_time" then rows.flatMap (fun r => List.replicate r.num.toNat { r with num := 1, den := 1 })
  else rows

/-! ### SQL text (after `WITH fp_sel as (…)`) -/

def renderTime (h : Hints) : String :=
  if h.step = 0 then "intDiv(samples.timestamp_ns, 1000000)"
  else if filtered h then
    "intDiv(samples.timestamp_ns + " ++ toString h.range ++ "000000, " ++ toString h.step ++ " * 1000000) * " ++
      toString h.step ++ " - 1"
  else "intDiv(samples.timestamp_ns, " ++ toString h.step ++ " * 1000000) * " ++ toString h.step ++ " - 1"

def renderDown (table : String) (tp : Int) (h : Hints) : Bytes :=
  let col := if h.step = 0 then Gen.PromStep.valueMergeDefault else valueCol h.func
  let m := ascii ("timestamp_ns % " ++ toString h.step ++ "000000")
  let conds : List Bytes :=
    [logical Gen.PromStep.downLower [ascii "samples.timestamp_ns", ascii (toString (ns h.start))],
     logical Gen.PromStep.downUpper [ascii "samples.timestamp_ns", ascii (toString (ns h.stop))],
     ascii ("type IN (" ++ toString tp ++ ",0)"),
     ascii "fingerprint IN (fp_sel)"] ++
    (if h.step ≠ 0 && filtered h then
      [logical "or" [logical "==" [m, ascii "0"],
                     logical ">" [m, ascii (toString (h.step * 1000000 - h.range * 1000000))]]]
     else [])
  ascii ("SELECT samples.fingerprint as fingerprint, " ++ col ++ " as value, " ++ renderTime h ++
    " as timestamp_ms FROM " ++ table ++ " as samples WHERE ") ++ logical "and" conds ++
  ascii " GROUP BY timestamp_ms, fingerprint ORDER BY fingerprint asc, timestamp_ms asc"

end Qryn.Prom.Downsample
