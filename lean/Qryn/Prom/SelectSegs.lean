import Qryn.Prom.Select
import Qryn.Prof.Selector
import Qryn.Sql.SegsOf
/-! C10: the SQL text of the Prometheus matcher selection (`FpQuery.render`, `renderScan`) and of the Pyroscope
    label selector (`PQuery.render`) as segment lists: raw text written by the planner and the string leaves that go
    through `StringVal` (label names and values, regular expressions, date bounds). Mirrors the render functions
    clause by clause; `Proofs/SelectorClosed.lean` shows `renderSegs (….segs) = ….render`. -/
namespace Qryn.Prom
open Qryn Qryn.Sql

def parenS (x : List Seg) : List Seg := [.raw [40]] ++ x ++ [.raw [41]]

/-- `LogicalOp.String` over segment lists -/
def logicalS (fn : String) (parts : List (List Seg)) : List Seg :=
  joinS (ascii (" " ++ fn ++ " ")) (parts.map parenS)

def Cond.segs : Cond → List Seg
  | .cmpStr fn col s => logicalS fn [[.raw (ascii col)], [.str s]]
  | .cmpMatch fn col pat k =>
    logicalS fn [[.raw (ascii "match(" ++ ascii col ++ ascii ", "), .str pat, .raw (ascii ")")], [.raw (ascii (toString k))]]
  | .and2 a b => logicalS "and" [a.segs, b.segs]

def bitSetS (cs : List (List Seg)) : List Seg :=
  let cast := Gen.PromSelect.shiftCast
  let term (p : Nat × List Seg) : List Seg :=
    [.raw (ascii "bitShiftLeft(" ++ (if cast = "" then [] else ascii (cast ++ "(")))] ++ p.2 ++
      [.raw ((if cast = "" then [] else ascii ")") ++ ascii ", " ++ ascii (toString p.1) ++ ascii ")")]
  [.raw (ascii "groupBitOr(")] ++ joinS (ascii " + ") ((indexed cs).map term) ++ [.raw (ascii ")")]

def FpQuery.segs (q : FpQuery) : List Seg :=
  [.raw (ascii "SELECT fingerprint FROM " ++ ascii q.table ++ ascii " WHERE ")] ++
    logicalS "and" ([logicalS (fnOf "Ge") [[.raw (ascii "date")], [.str q.fromDate]],
                     [.raw (ascii "type IN (" ++ ascii (toString q.tp) ++ ascii ",0)")]] ++
                    (if q.useOr then [logicalS "or" (q.conds.map Cond.segs)] else [])) ++
    [.raw (ascii " GROUP BY fingerprint")] ++
    (if q.conds.isEmpty then [] else
      [.raw (ascii " HAVING ")] ++
      logicalS "and" [logicalS (fnOf "Eq") [bitSetS (q.conds.map Cond.segs), [.raw (ascii (toString (Bits.requiredConst q.required)))]]])

def scanSegs (fromNs toNs : Int) : List Seg :=
  logicalS "and" [logicalS Gen.PromSelect.scanLower [[.raw (ascii "samples.timestamp_ns")], [.raw (ascii (toString fromNs))]],
                  logicalS Gen.PromSelect.scanUpper [[.raw (ascii "samples.timestamp_ns")], [.raw (ascii (toString toNs))]]]

end Qryn.Prom

namespace Qryn.Prof
open Qryn Qryn.Sql Qryn.Prom

def PCond.segs : PCond → List Seg
  | .cmp fn field s => logicalS fn [[.raw (ascii field)], [.str s]]
  | .cmpMatch fn field pat =>
    logicalS fn [[.raw (ascii "match(" ++ ascii field ++ ascii ", "), .str pat, .raw (ascii ")")], [.raw (ascii "1")]]
  | .arrayExists c =>
    logicalS (fnOf "Eq") [[.raw (ascii "arrayExists(x -> ")] ++ c.segs ++ [.raw (ascii ", sample_types_units)")], [.raw (ascii "1")]]
  | .and2 a b => logicalS "and" [a.segs, b.segs]

def PQuery.segs (q : PQuery) : List Seg :=
  [.raw (ascii "SELECT fingerprint FROM " ++ ascii q.table ++ ascii " WHERE ")] ++
    logicalS "and" ([logicalS (fnOf "Ge") [[.raw (ascii "date")], [.str q.fromDate]],
                     logicalS (fnOf "Le") [[.raw (ascii "date")], [.str q.toDate]]] ++
      (if q.globals.isEmpty then [] else [logicalS "and" (q.globals.map PCond.segs)]) ++
      (if q.kvs.isEmpty || !q.useOr then [] else [logicalS "or" (q.kvs.map PCond.segs)])) ++
    [.raw (ascii " GROUP BY fingerprint")] ++
    (if q.kvs.isEmpty then [] else
      [.raw (ascii " HAVING ")] ++ logicalS "and" [logicalS (fnOf "Eq")
        [bitSetS (q.kvs.map PCond.segs), [.raw (ascii (toString (Bits.requiredConst q.kvRequired)))]]])

end Qryn.Prof
