import Qryn.ReadSide.PipelineH
/-! # Read side: an executable schedule of the pipeline with its consumer (C12)

`hnext` picks ONE enabled move of `HStep` in a fixed order; `hsched` iterates it. The handler leaves its loop when it
has been handed `k` chunks (or when nothing else can move: it has seen the close). This is what the driver runs
(`c12hstop`) against the real scanner → exporter → consumer chain; `Proofs/ReadPipeHExec.lean` shows that every step
taken is a move of the transition system and what the verdicts mean. Core-only. -/
namespace Qryn.ReadSide.Pipe

def Stg.readyB (s : Stg) : Bool := s.buf.isEmpty && !s.inClosed && (!s.stopped || s.drains)

def Sys.upClosedB (S : Sys) : Nat → Bool
  | 0 => S.srcClosed
  | j + 1 => (S.stg j).outClosed

/-- the smallest index below `n` that satisfies `p` -/
def findIdx (p : Nat → Bool) : Nat → Option Nat
  | 0 => none
  | n + 1 =>
    match findIdx p n with
    | some i => some i
    | none => if p n then some n else none

def OnStop.drains : OnStop → Bool
  | .drain => true
  | _ => false

def canSend (S : Sys) (i : Nat) : Bool :=
  decide (i + 1 < S.n) && !(S.stg i).buf.isEmpty && (S.stg (i + 1)).readyB

def canSeeClose (S : Sys) (i : Nat) : Bool := (S.stg i).readyB && S.upClosedB i

def canClose (S : Sys) (i : Nat) : Bool :=
  (S.stg i).buf.isEmpty && !(S.stg i).outClosed && ((S.stg i).stopped || (S.stg i).inClosed)

/-- one move of the schedule; the second component counts the chunks handed to the handler while it was reading -/
def hnext (k : Nat) (S : HSys) (d : Nat) : Option (HSys × Nat) :=
  if S.reading && d == k then
    some ({ S with reading := false, ctxDone := S.ctxDone || (S.onStop == .cancel) }, d)
  else
    match (S.sys.stg (S.sys.n - 1)).buf, decide (0 < S.sys.n) && (S.reading || S.onStop.drains) with
    | _ :: rest, true =>
      some ({ S with sys := { S.sys with stg := upd S.sys.stg (S.sys.n - 1) ((S.sys.stg (S.sys.n - 1)).setBuf rest) } },
            if S.reading then d + 1 else d)
    | _, _ =>
      match findIdx (canSend S.sys) S.sys.n with
      | some i =>
        match (S.sys.stg i).buf with
        | it :: rest =>
          some ({ S with sys := { S.sys with stg := upd (upd S.sys.stg i ((S.sys.stg i).setBuf rest)) (i + 1) ((S.sys.stg (i + 1)).recv it) } }, d)
        | [] => none
      | none =>
        match S.sys.src, decide (0 < S.sys.n) && (S.sys.stg 0).readyB with
        | it :: rest, true =>
          some ({ S with sys := { S.sys with src := rest, stg := upd S.sys.stg 0 ((S.sys.stg 0).recv it) } }, d)
        | src, _ =>
          if src.isEmpty && !S.sys.srcClosed then
            some ({ S with sys := { S.sys with srcClosed := true } }, d)
          else
            match findIdx (canSeeClose S.sys) S.sys.n with
            | some i => some ({ S with sys := { S.sys with stg := upd S.sys.stg i (S.sys.stg i).onClose } }, d)
            | none =>
              match findIdx (canClose S.sys) S.sys.n with
              | some i => some ({ S with sys := { S.sys with stg := upd S.sys.stg i (S.sys.stg i).closeOut } }, d)
              | none =>
                if S.reading then
                  some ({ S with reading := false, ctxDone := S.ctxDone || (S.onStop == .cancel) }, d)
                else none

/-- run the schedule until nothing moves (or the fuel is used up) -/
def hsched (k : Nat) : Nat → HSys → Nat → HSys × Nat
  | 0, S, d => (S, d)
  | fuel + 1, S, d =>
    match hnext k S d with
    | some (S', d') => hsched k fuel S' d'
    | none => (S, d)

def allBelow (p : Nat → Bool) : Nat → Bool
  | 0 => true
  | n + 1 => allBelow p n && p n

/-- every goroutine has returned, every channel is closed, the handler has left -/
def hfinalB (S : HSys) : Bool :=
  S.sys.src.isEmpty && S.sys.srcClosed && !S.reading &&
  allBelow (fun i => (S.sys.stg i).buf.isEmpty && (S.sys.stg i).inClosed && (S.sys.stg i).outClosed) S.sys.n

/-- the handler has left without a drainer, nobody watches the context, the exporter holds a chunk -/
def abandonedB (S : HSys) : Bool :=
  !S.reading && !S.onStop.drains && !S.sel && decide (0 < S.sys.n) && !(S.sys.stg (S.sys.n - 1)).buf.isEmpty

def verdict (S : HSys) : String :=
  if hfinalB S then "final" else if abandonedB S then "blocked" else "open"

/-- a batch that makes the exporter send `c` chunks; `err`: its last entry is an error entry -/
def batchItem (c : Nat) (err : Bool) : Item := .mk err (List.replicate c (.mk false []))

/-- scanner → exporter → handler: the batches the scanner sends, the closing chunk, the handler's code, the stop point -/
def exporterRun (batches : List (Nat × Bool)) (c : OnStop) (k : Nat) : String × Nat :=
  let rows := batches.map (fun b => batchItem b.1 b.2)
  let S0 := hstart 1 rows (fun _ => [.mk false []]) (fun _ => true) c false
  let r := hsched k (S0.measure + 2) S0 0
  (verdict r.1, r.2)

end Qryn.ReadSide.Pipe
