import Qryn.ReadSide.Pipeline
/-! # C12 — `dbVersion.GetVersionInfo` as a transition system

reader/utils/dbVersion/version.go: the schema-version lookup EVERY read request runs before it plans its query.
A cache entry per database (`versions[db.GetName()]`, under `mtx`), filled by two bookkeeping queries (the
`type='update'` settings query, `SHOW TABLES`) that run OUTSIDE the mutex; after a successful fill `throttle()` starts —
at most once at a time (`CompareAndSwap(&throttled, 0, 1)`) — a goroutine that sleeps 10 s, stores `throttled = 0` and
then, under `mtx`, replaces the whole cache by an empty one.

`Ev` is the vocabulary of the regenerated fact `Gen.DbVersion.funcs` (the event sequences of the source paths).
`Code` says which of two shapes the source has: the pinned one (every lookup that misses the cache sends its own two
queries: `share = false`) or a single-flight one (`share = true`: a lookup that finds another one for the same database
under way blocks on that one's `done` channel; `signalOnError` = the leader closes `done` on its error path too). -/
namespace Qryn.ReadSide.DbVersion
open Qryn.ReadSide Qryn.ReadSide.Pipe

/-- events of a source path (see harness/extract/dbversion.go) -/
inductive Ev
  | lock | unlock
  | read (v : String) | write (v : String) | cas (v : String)
  | query | sleep
  | mk (ch : String) | wait (ch : String) | signal (ch : String)
  | spawn (f : String) | call (f : String)
  | ret (err : Bool)
  deriving DecidableEq, Repr

structure Code where
  share : Bool
  signalOnError : Bool
  deriving DecidableEq, Repr

/-- outcome of one bookkeeping query: rows, a database error, or the lookup's own request context cancelled (its client
    went away) — chosen by the adversary -/
inductive Out | ok | err | cancelled
  deriving DecidableEq, Repr

/-- what `GetVersionInfo` returns -/
inductive Res | value | error
  deriving DecidableEq, Repr

/-- where one lookup (one call of `GetVersionInfo` on some request's goroutine) is -/
inductive PC
  | start                     -- before the first hold of `mtx` (the cache look-up)
  | settings                  -- the `type='update'` settings query is under way (no lock held)
  | tables                    -- `SHOW TABLES` is under way (no lock held)
  | finishing (r : Res)       -- queries done; before the second hold (write the entry / single-flight: remove the lookup)
  | waiting (leader : Nat)    -- single-flight only: blocked in `<-l.done` of lookup `leader`
  | returned (r : Res) (signalled : Bool)  -- back in the caller; `signalled`: its waiters (if any) were woken
  deriving DecidableEq, Repr

def PC.inFlight : PC → Bool
  | .settings | .tables | .finishing _ => true
  | _ => false

def PC.isReturned : PC → Bool
  | .returned _ _ => true
  | _ => false

/-- upper bound on the moves the lookup can still make (a `finishing` lookup may start the sleeper: 2 + 1 more) -/
def PC.weight : PC → Nat
  | .start => 7
  | .settings => 6
  | .tables => 5
  | .finishing _ => 4
  | .waiting _ => 1
  | .returned _ _ => 0

structure Lookup where
  db : Nat
  pc : PC

structure Sys where
  n : Nat                        -- lookups 0 … n-1 (any number, any databases)
  lk : Nat → Lookup
  cache : Nat → Bool             -- `versions` has an entry for the database
  inflight : Nat → Option Nat    -- single-flight only: `lookups[db]` = the leading lookup
  throttled : Bool               -- the `throttled` flag
  sleepers : Nat                 -- throttle goroutines in their 10 s sleep
  resets : Nat                   -- throttle goroutines past `StoreInt32(&throttled, 0)`, before their hold of `mtx`

def setPc (f : Nat → Lookup) (i : Nat) (p : PC) : Nat → Lookup :=
  fun j => if j = i then { f j with pc := p } else f j

def setKey {α} (f : Nat → α) (k : Nat) (v : α) : Nat → α := fun j => if j = k then v else f j

/-- after a failed bookkeeping query: the pinned code returns the error at once (it holds nothing, nobody waits for it);
    the single-flight code first takes the mutex to remove its `lookups` entry -/
def afterErr (c : Code) : PC := if c.share then .finishing .error else .returned .error true

def afterQuery (c : Code) (o : Out) (next : PC) : PC :=
  match o with
  | .ok => next
  | _ => afterErr c

/-- the second hold and what follows it: entry written on success; single-flight: `lookups` entry removed; waiters woken
    (`close(l.done)`) on success and — only if the code does so — on failure; `throttle()` on success -/
def finish (c : Code) (S : Sys) (i : Nat) (r : Res) : Sys :=
  let d := (S.lk i).db
  let sig := !c.share || r == .value || c.signalOnError
  let spawn := r == .value && !S.throttled
  { S with
    lk := setPc S.lk i (.returned r sig)
    cache := if r == .value then setKey S.cache d true else S.cache
    inflight := if c.share then setKey S.inflight d none else S.inflight
    throttled := if r == .value then true else S.throttled
    sleepers := if spawn then S.sleepers + 1 else S.sleepers }

/-- one atomic move of one goroutine. Critical sections of `mtx` are atomic moves (nothing blocks inside a hold:
    `Gen.DbVersion` refuses a query / wait / sleep under the mutex); everything else interleaves freely. -/
inductive Step (c : Code) : Sys → Sys → Prop
  /-- first hold, entry present: return it -/
  | hit (S : Sys) (i : Nat) (hi : i < S.n) (hp : (S.lk i).pc = .start) (hc : S.cache (S.lk i).db = true) :
      Step c S { S with lk := setPc S.lk i (.returned .value true) }
  /-- first hold, no entry, single-flight, another lookup for this database under way: wait for it -/
  | join (S : Sys) (i ld : Nat) (hi : i < S.n) (hp : (S.lk i).pc = .start) (hc : S.cache (S.lk i).db = false)
      (hs : c.share = true) (hf : S.inflight (S.lk i).db = some ld) :
      Step c S { S with lk := setPc S.lk i (.waiting ld) }
  /-- first hold, no entry: go and ask the database (single-flight: register as the leader) -/
  | lead (S : Sys) (i : Nat) (hi : i < S.n) (hp : (S.lk i).pc = .start) (hc : S.cache (S.lk i).db = false)
      (hf : c.share = true → S.inflight (S.lk i).db = none) :
      Step c S { S with lk := setPc S.lk i .settings,
                        inflight := if c.share then setKey S.inflight (S.lk i).db (some i) else S.inflight }
  /-- the settings query ends, with any outcome -/
  | settings (S : Sys) (i : Nat) (o : Out) (hi : i < S.n) (hp : (S.lk i).pc = .settings) :
      Step c S { S with lk := setPc S.lk i (afterQuery c o .tables) }
  /-- SHOW TABLES ends, with any outcome -/
  | tables (S : Sys) (i : Nat) (o : Out) (hi : i < S.n) (hp : (S.lk i).pc = .tables) :
      Step c S { S with lk := setPc S.lk i (afterQuery c o (.finishing .value)) }
  | finish (S : Sys) (i : Nat) (r : Res) (hi : i < S.n) (hp : (S.lk i).pc = .finishing r) :
      Step c S (finish c S i r)
  /-- a waiter is woken: the leader has returned AND closed `done` -/
  | wake (S : Sys) (j ld : Nat) (r : Res) (hj : j < S.n) (hp : (S.lk j).pc = .waiting ld)
      (hl : (S.lk ld).pc = .returned r true) :
      Step c S { S with lk := setPc S.lk j (.returned r true) }
  /-- a throttle goroutine's sleep ends: `throttled = 0` -/
  | sleeperWakes (S : Sys) (h : 0 < S.sleepers) :
      Step c S { S with sleepers := S.sleepers - 1, resets := S.resets + 1, throttled := false }
  /-- … and, under `mtx`, the cache is replaced by an empty one (every database's entry expires) -/
  | reset (S : Sys) (h : 0 < S.resets) :
      Step c S { S with resets := S.resets - 1, cache := fun _ => false }

inductive Run (c : Code) : Sys → Sys → Prop
  | refl (S : Sys) : Run c S S
  | step {S S' S'' : Sys} : Step c S S' → Run c S' S'' → Run c S S''

/-- every lookup is back in its caller -/
def AllReturned (S : Sys) : Prop := ∀ i, i < S.n → (S.lk i).pc.isReturned = true

/-- any number of lookups about to start, on any databases; cache warm or cold for each database, a reset pending or
    not, the throttle flag either way -/
def Initial (S : Sys) : Prop := (∀ i, (S.lk i).pc = .start) ∧ (∀ d, S.inflight d = none)

def Sys.measure (S : Sys) : Nat := sumTo S.n (fun i => (S.lk i).pc.weight) + 2 * S.sleepers + S.resets

/-- what holds in every reachable state (for a code that wakes its waiters on every path) -/
structure Inv (c : Code) (S : Sys) : Prop where
  /-- a waiter's leader is still on its way or has returned with `done` closed -/
  waiter : ∀ j ld, j < S.n → (S.lk j).pc = .waiting ld →
    ld < S.n ∧ ((S.lk ld).pc.inFlight = true ∨ ∃ r, (S.lk ld).pc = .returned r true)
  /-- a registered lookup is one for that database and is on its way -/
  leader : ∀ d ld, S.inflight d = some ld → ld < S.n ∧ (S.lk ld).db = d ∧ (S.lk ld).pc.inFlight = true
  /-- the pinned shape has no `lookups` map -/
  noShare : c.share = false → ∀ d, S.inflight d = none

/-- the defect pattern: a lookup blocked in `<-l.done` whose leader has returned WITHOUT closing `done` -/
def Orphaned (S : Sys) : Prop :=
  ∃ j ld r, j < S.n ∧ (S.lk j).pc = .waiting ld ∧ (S.lk ld).pc = .returned r false

end Qryn.ReadSide.DbVersion
