import Qryn.ReadSide.Pipeline
/-! # Read side: the pipeline WITH its consumer — the HTTP handler as part of the transition system (C12)

`Pipeline.lean` lets the last stage's send (`sendLast`) happen at any time: the handler is assumed to read until
close. Here the handler is a component of the system:

    scanner → stage₀ → … → exporter (stageₙ₋₁) → HANDLER (`for chunk := range ch { w.Write(chunk) }`)

* `reading` — the handler is still in its copy loop. The environment move `stop` takes it out of the loop at ANY
  point (client gone, write error, limit reached, or simply the channel was closed and the loop ended).
* `onStop` — what the handler's CODE does when it leaves the loop early (a code property, regenerated from source as
  `Gen.ReadGoroutines.handlerLoops`):
    - `drain`   it keeps receiving, or leaves a drainer goroutine behind (what qryn does: the handlers have no early
                exit at all; the websocket tail defers `go func(){ for range ch {} }()`);
    - `cancel`  it cancels the request context and returns;
    - `abandon` it just returns (the counter-pattern: seeded change C12-1).
* `sel` — code property of the producers: every send is `select { case out <- x: case <-ctx.Done(): return }`
  (regenerated: `producers_rely_on_drain` says that in qryn NO send is of this form);
* `ctxDone` — the request context is cancelled. `envCancel` cancels it at any time (net/http when the client goes
  away; `LimitPlanner`), `stop` cancels it when `onStop = cancel`.

Moves: every move of `Pipeline.Step` (`work`), except that a move which hands a chunk of the LAST stage to its consumer
needs a consumer (`accepts`: the handler is reading or its code drains); `stop`; `envCancel`; and, for producers whose
sends select on the context, `abort` (a blocked send takes the `Done` branch: the stage drops what it still had to
send and returns — its deferred `close` and drain then run as the ordinary `close` / receive moves) and `srcAbort`.
Core-only. -/
namespace Qryn.ReadSide.Pipe

inductive OnStop where
  | drain | cancel | abandon
  deriving DecidableEq, Repr

structure HSys where
  sys : Sys
  reading : Bool
  onStop : OnStop
  ctxDone : Bool
  sel : Bool

/-- the move from `S` to `T` hands a chunk of the last stage to that stage's consumer (the handler or its drainer) -/
def lastRecv (S T : Sys) : Prop := ∃ it, (S.stg (S.n - 1)).buf = it :: (T.stg (S.n - 1)).buf

/-- somebody receives from the last stage's channel -/
def HSys.accepts (S : HSys) : Prop := S.reading = true ∨ S.onStop = .drain

/-- a send that selects on the cancelled context: the stage gives up what it still had to send and returns -/
def Stg.abort (s : Stg) : Stg := { s with buf := [], flush := [], stopped := true }

inductive HStep : HSys → HSys → Prop
  | work (S : HSys) (T : Sys) :
      Step S.sys T → (lastRecv S.sys T → S.accepts) → HStep S { S with sys := T }
  | stop (S : HSys) :
      S.reading = true →
      HStep S { S with reading := false, ctxDone := S.ctxDone || (S.onStop == .cancel) }
  | envCancel (S : HSys) :
      S.ctxDone = false → HStep S { S with ctxDone := true }
  | abort (S : HSys) (i : Nat) :
      S.ctxDone = true → S.sel = true → i < S.sys.n → (S.sys.stg i).buf ≠ [] →
      HStep S { S with sys := { S.sys with stg := upd S.sys.stg i (S.sys.stg i).abort } }
  | srcAbort (S : HSys) :
      S.ctxDone = true → S.sel = true → S.sys.src ≠ [] →
      HStep S { S with sys := { S.sys with src := [] } }

inductive HRun : HSys → HSys → Prop
  | refl (S : HSys) : HRun S S
  | step {S S' S'' : HSys} : HStep S S' → HRun S' S'' → HRun S S''

/-- every goroutine of the request has returned (scanner, stages, exporter: `Final`) and the handler has left its loop -/
def HFinal (S : HSys) : Prop := Final S.sys ∧ S.reading = false

/-- the start of a request -/
def hstart (n : Nat) (rows : List Item) (flush : Nat → List Item) (drains : Nat → Bool) (onStop : OnStop) (sel : Bool) : HSys :=
  { sys := start n rows flush drains, reading := true, onStop := onStop, ctxDone := false, sel := sel }

def HSys.measure (S : HSys) : Nat :=
  S.sys.measure + (if S.reading then 1 else 0) + (if S.ctxDone then 0 else 1)

/-- what holds in every state of a request whose stages keep their input consumed -/
structure HInv (S : HSys) : Prop where
  inv : Inv S.sys
  cancelled : S.reading = false → S.onStop = .cancel → S.ctxDone = true

/-- the handler has left, its code does not drain (it abandons the channel, or it only cancels a context that the
    producers' sends do not watch), and the exporter still has a chunk to hand over -/
structure Abandoned (S : HSys) : Prop where
  left : S.reading = false
  code : S.onStop ≠ .drain
  nosel : S.sel = false
  pos : 0 < S.sys.n
  pending : (S.sys.stg (S.sys.n - 1)).buf ≠ []

end Qryn.ReadSide.Pipe
