/-! # Read side: parameter handling and the arithmetic of the result-shaping goroutines (C12)

Model of
* `reader/controller/{queryRangeController,utils,promQueryRangeController,tempoController}.go` — how
  start/end/step/limit/direction/time are parsed (the stdlib parsers themselves are not modelled: the model starts
  from their outcome `Parsed`), defaults, units, and which HTTP status class each outcome gets;
* `reader/service/queryRangeService.go prepareOutput` — window in ns (no seconds truncation since the A25 fix), step in ms;
* `reader/logql/logql_transpiler_v2/planner_from_fix.go` (`FixPeriodPlanner`), `planner_matrix_step.go`
  (`MatrixStepPlanner`, unreferenced code), `internal_planner/planner_generic_aggregator.go` + `planner_lra.go` /
  `planner_unwrap_agg.go` / `planner_agg_op.go` (`streamLen`, bucket index), `internal_planner/planner_limit.go`,
  `shared/planner_clickhouse_getter.go` (the 100-slot batch buffer), `traceql/transpiler/reqest_processor.go`;
with every Go run-time panic as an explicit `Fault` value at the expression that raises it, int64 arithmetic as
two's-complement (`wrap`), and the goroutine that runs the code deciding what a fault means for the request.
Core-only. -/
namespace Qryn.ReadSide

/-- Go run-time panics -/
inductive Fault where
  | divByZero | badSize | indexOutOfRange | sliceBounds | nilDeref | typeAssert
  deriving DecidableEq, Repr

instance {ε α : Type} [DecidableEq ε] [DecidableEq α] : DecidableEq (Except ε α) := fun a b =>
  match a, b with
  | .ok x, .ok y => if h : x = y then isTrue (by rw [h]) else isFalse (fun h' => h (by cases h'; rfl))
  | .error x, .error y => if h : x = y then isTrue (by rw [h]) else isFalse (fun h' => h (by cases h'; rfl))
  | .ok _, .error _ => isFalse (fun h => by cases h)
  | .error _, .ok _ => isFalse (fun h => by cases h)

def Fault.name : Fault → String
  | .divByZero => "div-by-zero" | .badSize => "makeslice" | .indexOutOfRange => "index"
  | .sliceBounds => "slice-bounds" | .nilDeref => "nil-deref" | .typeAssert => "type-assert"

/-- which goroutine runs a piece of code -/
inductive Runner where
  | handlerRecovered   -- HTTP handler with `defer tamePanic(w, r)`: fault → 500
  | handlerBare        -- HTTP handler without recover: net/http recovers, the connection is dropped
  | stageRecovered     -- pipeline goroutine with a *directly* deferred `shared.TamePanic`: fault → error entry
  | detached           -- goroutine without recover: fault → the process dies
  deriving DecidableEq, Repr

/-- how a request ends -/
inductive Resp where
  | result       -- 2xx, complete document
  | err4xx | err5xx
  | streamError  -- 200 already sent, the stream ends with the error marker
  | aborted      -- no HTTP response (connection dropped)
  | crash        -- the process is gone
  deriving DecidableEq, Repr

def Resp.name : Resp → String
  | .result => "200" | .err4xx => "400" | .err5xx => "500" | .streamError => "200e" | .aborted => "aborted" | .crash => "crash"

/-- what a fault means, by goroutine -/
def faultOutcome : Runner → Resp
  | .handlerRecovered => .err5xx
  | .handlerBare => .aborted
  | .stageRecovered => .streamError
  | .detached => .crash

/-- a response class the property accepts: an HTTP response was produced and the process lives -/
def Resp.answered : Resp → Bool
  | .result | .err4xx | .err5xx | .streamError => true
  | .aborted | .crash => false

/-! ## int64 -/
abbrev two63 : Int := 9223372036854775808
abbrev two64 : Int := 18446744073709551616

/-- two's-complement reduction to int64 -/
def wrap (x : Int) : Int := (x + 9223372036854775808) % 18446744073709551616 - 9223372036854775808

/-- Go `a / b` on int64: truncated; division by zero panics; `MinInt64 / -1` wraps -/
def div64 (a b : Int) : Except Fault Int :=
  if b = 0 then .error .divByZero else .ok (wrap (a.tdiv b))

/-- `make([]float64, n)`: panics when `n < 0` or `8 n` exceeds the 2^48-byte address space -/
def makeLen (n : Int) : Except Fault Nat :=
  if n < 0 ∨ 35184372088832 < n then .error .badSize else .ok n.toNat

/-- `time.Time.Sub` saturates instead of wrapping -/
def sat (x : Int) : Int :=
  if x < -9223372036854775808 then -9223372036854775808 else if 9223372036854775808 ≤ x then 9223372036854775807 else x

/-! ## FixPeriodPlanner (planner_from_fix.go) -/

/-- which of the three repairs are present (`pinned` = the tree as found) -/
structure FixCode where
  guard : Bool          -- Process refuses step ≤ 0, range ≤ 0, to < from, too many points (before `go`)
  firstSeries : Bool    -- `values == nil ||` in the allocation test (fingerprint 0 first)
  inversion : Bool      -- `|| idxFrom > idxTo` in the skip test (int64 overflow)
  deriving DecidableEq, Repr

def FixCode.pinned : FixCode := ⟨false, false, false⟩
def FixCode.fixed : FixCode := ⟨true, true, true⟩

structure FixParams where
  from_ : Int   -- ctx.From.UnixNano() before truncation
  to_ : Int     -- ctx.To.UnixNano()
  step : Int    -- ctx.Step.Nanoseconds()
  dur : Int     -- m.Duration.Nanoseconds()
  deriving DecidableEq, Repr

/-- one result row reaching the planner; `val` stands for the float (only `== 0` and copying matter) -/
structure Entry where
  fp : Nat
  ts : Int
  val : Int
  deriving DecidableEq, Repr

/-- the synchronous guard (runs in the HTTP handler; `false` = an error is returned → 5xx) -/
def fixGuard (maxPoints : Int) (p : FixParams) : Bool :=
  decide (0 < p.step) && decide (0 < p.dur) && decide (p.from_ ≤ p.to_) && decide (0 ≤ wrap (p.to_ - p.from_))
    && decide ((wrap (p.to_ - p.from_)).tdiv p.step < maxPoints)

structure FixSt where
  values : Option (List Int)        -- nil / the per-series slice
  fp : Nat
  out : List (Nat × List (Int × Int))   -- exported series: (fingerprint, [(timestamp, value)]) in order
  deriving DecidableEq, Repr

def FixSt.init : FixSt := ⟨none, 0, []⟩

def FixSt.len (s : FixSt) : Int := match s.values with | none => 0 | some v => v.length

/-- `exportEntries`: the non-zero points of the current slice -/
def exportPoints (p : FixParams) (v : List Int) : List (Int × Int) :=
  (v.zipIdx.filter (fun x => x.1 ≠ 0)).map (fun x => (wrap (p.from_ + wrap ((x.2 : Int) * p.step)), x.1))

def fixExport (p : FixParams) (s : FixSt) : List (Nat × List (Int × Int)) :=
  match s.values with
  | none => s.out
  | some v => if exportPoints p v = [] then s.out else s.out ++ [(s.fp, exportPoints p v)]

/-- `values = make([]float64, (_to-_from)/step+1)` — fault sites F1 (division), F2 (makeslice) -/
def fixAlloc (p : FixParams) : Except Fault Nat :=
  if p.step = 0 then .error .divByZero
  else makeLen (wrap (wrap ((wrap (p.to_ - p.from_)).tdiv p.step) + 1))

/-- `idxFrom`, `idxTo` — fault sites F3 (`/ duration`), F4 (`/ step`) -/
def fixIdx (p : FixParams) (ts : Int) : Except Fault (Int × Int) :=
  if p.dur = 0 then .error .divByZero
  else if p.step = 0 then .error .divByZero
  else
    let q := wrap (ts.tdiv p.dur)
    let a := wrap (wrap (q * p.dur) - p.from_)
    let b := wrap (wrap (wrap (q + 1) * p.dur) - p.from_)
    .ok (wrap (a.tdiv p.step), wrap (b.tdiv p.step))

/-- `v[lo:hi] = val` on a list -/
def fillRange (v : List Int) (lo hi : Nat) (val : Int) : List Int :=
  v.take lo ++ List.replicate (hi - lo) val ++ v.drop hi

/-- skip test, clamps, `values[idxFrom:idxTo+1]` (F5 slice bounds) and `fastFill` (F6: `v[0]` of an empty slice) -/
def fixFill (c : FixCode) (s : FixSt) (idxFrom idxTo val : Int) : Except Fault FixSt :=
  let len := s.len
  if idxTo < 0 ∨ len ≤ idxFrom ∨ (c.inversion = true ∧ idxTo < idxFrom) then .ok s
  else
    let lo := if idxFrom < 0 then 0 else idxFrom
    let hi := (if len ≤ idxTo then len - 1 else idxTo) + 1
    if lo < 0 ∨ hi < lo ∨ len < hi then .error .sliceBounds
    else if hi - lo = 0 then .error .indexOutOfRange
    else match s.values with
      | none => .error .indexOutOfRange   -- unreachable: len = 0 is caught above
      | some v => .ok { s with values := some (fillRange v lo.toNat hi.toNat val) }

/-- the body of `for _, entry := range entries` -/
def fixEntry (c : FixCode) (p : FixParams) (s : FixSt) (e : Entry) : Except Fault FixSt :=
  let s1 : Except Fault FixSt :=
    if (c.firstSeries = true ∧ s.values = none) ∨ e.fp ≠ s.fp then
      match fixAlloc p with
      | .error f => .error f
      | .ok n => .ok { values := some (List.replicate n 0), fp := e.fp, out := fixExport p s }
    else .ok s
  match s1 with
  | .error f => .error f
  | .ok s1 =>
    match fixIdx p e.ts with
    | .error f => .error f
    | .ok (i, j) => fixFill c s1 i j e.val

def fixLoop (c : FixCode) (p : FixParams) : FixSt → List Entry → Except Fault FixSt
  | s, [] => .ok s
  | s, e :: es => match fixEntry c p s e with
    | .error f => .error f
    | .ok s' => fixLoop c p s' es

/-- the detached goroutine of `FixPeriodPlanner.Process` over all rows: exported series or the fault that kills
    the process -/
def fixGoroutine (c : FixCode) (p : FixParams) (es : List Entry) : Except Fault (List (Nat × List (Int × Int))) :=
  match fixLoop c p FixSt.init es with
  | .error f => .error f
  | .ok s => .ok (fixExport p s)

/-- `FixPeriodPlanner.Process`: `none` = refused synchronously (error → 5xx), otherwise what the goroutine does -/
def fixProcess (c : FixCode) (maxPoints : Int) (p : FixParams) (es : List Entry) :
    Option (Except Fault (List (Nat × List (Int × Int)))) :=
  if c.guard = true ∧ fixGuard maxPoints p = false then none else some (fixGoroutine c p es)

/-! ## MatrixStepPlanner (planner_matrix_step.go; not referenced by any plan) -/

/-- `for ; i < start+dur && i < to; i += step { emit i }` with fuel; `none` = fuel exhausted -/
def matrixStepLoop : Nat → Int → Int → Int → Option (List Int)
  | 0, _, _, _ => none
  | fuel + 1, i, lim, step =>
    if i < lim then (matrixStepLoop fuel (i + step) lim step).map (i :: ·) else some []

/-! ## Aggregator (planner_generic_aggregator.go, planner_lra.go, planner_unwrap_agg.go, planner_agg_op.go) -/

structure AggCode where
  lraGuard : Bool     -- `idx < 0 || idx+1 >= len → return` in LRAPlanner/UnwrapAggPlanner.addValue
  aggOpStrict : Bool  -- `idx >= len/2` (fixed) instead of `idx*2 > len` (pinned) in AggOpPlanner.addValue
  tamed : Bool        -- `defer shared.TamePanic(out)` deferred directly, so that it recovers
  deriving DecidableEq, Repr

def AggCode.pinned : AggCode := ⟨false, false, false⟩
def AggCode.fixed : AggCode := ⟨true, true, true⟩

/-- `streamLen := ctx.To.Sub(ctx.From).Nanoseconds() / p.Duration.Nanoseconds()` (runs in the HTTP handler);
    `fromT`, `toT` are the exact instants in ns, `Sub` saturates -/
def aggStreamLen (fromT toT dur : Int) : Except Fault Int := div64 (sat (toT - fromT)) dur

/-- `process`: `.ok none` = NotSupportedError (too long), `.ok (some n)` = go on -/
def aggProcess (cap : Int) (fromT toT dur : Int) : Except Fault (Option Int) :=
  match aggStreamLen fromT toT dur with
  | .error f => .error f
  | .ok n => if cap < n then .ok none else .ok (some n)

/-- `make([]float64, streamLen*2)` in `OnEntry` (pipeline goroutine) -/
def aggAlloc (streamLen : Int) : Except Fault Nat := makeLen (wrap (streamLen * 2))

/-- LRA / unwrap `addValue`: writes `values[idx]` and `values[idx+1]`; result = the index written or skip -/
def lraAddValue (c : AggCode) (fromNs dur ts : Int) (len : Nat) : Except Fault (Option Nat) :=
  if dur = 0 then .error .divByZero
  else
    let idx := wrap (wrap ((wrap (ts - fromNs)).tdiv dur) * 2)
    if c.lraGuard = true ∧ (idx < 0 ∨ (len : Int) ≤ idx + 1) then .ok none
    else if idx < 0 ∨ (len : Int) ≤ idx then .error .indexOutOfRange
    else if idx + 1 < 0 ∨ (len : Int) ≤ idx + 1 then .error .indexOutOfRange
    else .ok (some idx.toNat)

/-- AggOp `addValue`: guard on `idx`, then `values[idx*2]`, `values[idx*2+1]` -/
def aggOpAddValue (c : AggCode) (fromNs dur ts : Int) (len : Nat) : Except Fault (Option Nat) :=
  if dur = 0 then .error .divByZero
  else
    let idx := wrap ((wrap (ts - fromNs)).tdiv dur)
    let skip := if c.aggOpStrict then (idx < 0 ∨ ((len / 2 : Nat) : Int) ≤ idx) else (idx < 0 ∨ (len : Int) < wrap (idx * 2))
    if skip then .ok none
    else
      let i := wrap (idx * 2)
      if i < 0 ∨ (len : Int) ≤ i then .error .indexOutOfRange
      else if wrap (i + 1) < 0 ∨ (len : Int) ≤ wrap (i + 1) then .error .indexOutOfRange
      else .ok (some i.toNat)

/-- bucket counts after feeding timestamps to `count_over_time` (LRA): the model the driver runs -/
def lraCount (c : AggCode) (fromNs dur : Int) (len : Nat) : List Int → List Nat → Except Fault (List Nat)
  | [], acc => .ok acc
  | ts :: rest, acc => match lraAddValue c fromNs dur ts len with
    | .error f => .error f
    | .ok none => lraCount c fromNs dur len rest acc
    | .ok (some i) => lraCount c fromNs dur len rest (acc.set (i / 2) (acc.getD (i / 2) 0 + 1))

/-! ## LimitPlanner (planner_limit.go) -/

/-- `OnAfterEntriesSlice`: state `sent`; result = (new sent, size of the batch forwarded if any, cancel called) -/
def limitBatch (limit sent : Int) (n : Nat) : Except Fault (Int × Option Nat × Bool) :=
  if limit = 0 then .ok (sent, some n, false)            -- limit 0 = no limit: forward everything
  else if limit ≤ sent then .ok (sent, none, false)
  else if wrap (sent + n) < limit then .ok (wrap (sent + n), some n, false)
  else
    let k := wrap (limit - sent)
    if k < 0 ∨ (n : Int) < k then .error .sliceBounds     -- entries[:limit-sent]
    else .ok (limit, some k.toNat, true)

/-- the stage over the sizes of the incoming batches: sizes forwarded, and whether the context was cancelled -/
def limitRun (limit : Int) : Int → List Nat → Except Fault (List Nat × Bool)
  | _, [] => .ok ([], false)
  | sent, n :: ns => match limitBatch limit sent n with
    | .error f => .error f
    | .ok (sent', k, cancel) => match limitRun limit sent' ns with
      | .error f => .error f
      | .ok (ks, c) => .ok ((match k with | some k => k :: ks | none => ks), cancel || c)

/-! ## Scanner (planner_clickhouse_getter.go Scan / ScanMatrix) -/

inductive RowEv where
  | row        -- Scan succeeds
  | scanErr    -- Scan fails: the error entry is sent, the goroutine returns
  | ctxDone    -- context cancelled: the partial batch is sent, the goroutine returns
  deriving DecidableEq, Repr

/-- index `i` into `entries` (a `bufLen`-slot slice); every access `entries[i]` must have `i < bufLen`;
    result = sizes of the batches sent -/
def scanLoop (bufLen : Nat) : Nat → List RowEv → Except Fault (List Nat)
  | i, [] => if i < bufLen then .ok [i + 1] else .error .indexOutOfRange        -- entries[i].Err = io.EOF
  | i, .ctxDone :: _ => if i ≤ bufLen then .ok [i] else .error .sliceBounds       -- entries[:i]
  | i, .scanErr :: _ => if i < bufLen then .ok [i + 1] else .error .indexOutOfRange
  | i, .row :: rest =>
    if i < bufLen then
      if bufLen ≤ i + 1 then (scanLoop bufLen 0 rest).map (bufLen :: ·) else scanLoop bufLen (i + 1) rest
    else .error .indexOutOfRange

/-! ## TraceQL result rows (reqest_processor.go) -/

/-- the goroutine indexes `timestampsNs[i]` for `i < len(durationsNs)` and both for `i < len(spanIds)` -/
def traceqlRow (nIds nDur nTs : Nat) : Except Fault Unit :=
  if nTs < nDur then .error .indexOutOfRange
  else if nDur < nIds ∨ nTs < nIds then .error .indexOutOfRange
  else .ok ()

/-! ## Tempo trace id (tempoController.go Trace) -/

/-- `hex.Decode(dst, id)`: `.ok false` = error returned (invalid digit / odd length), fault = `dst` too short.
    `dstLen` is 32 in the pinned code, `len(id)/2` in the fixed code. -/
def hexDecodeInto (dstLen : Nat) (idLen : Nat) (firstBadPair : Option Nat) : Except Fault Bool :=
  let pairs := match firstBadPair with | some k => min k (idLen / 2) | none => idLen / 2
  if dstLen < pairs then .error .indexOutOfRange
  else .ok (firstBadPair.isNone && idLen % 2 == 0)

/-! ## Controllers -/

inductive Parsed (α : Type) where
  | absent | invalid | ok (v : α)
  deriving DecidableEq, Repr

/-- what the real parser and planner made of the query text (obtained from the real code, abstract here) -/
structure Plan where
  parseOk : Bool
  matrix : Bool          -- chain[0].IsMatrix()
  rangeDur : Int         -- shared.GetDuration, ns (0 for log queries)
  aggDur : Option Int    -- duration of the internal aggregator when the plan has one
  deriving DecidableEq, Repr

structure DbScript where
  versionFails : Bool
  mainFails : Bool
  rows : List Entry
  deriving DecidableEq, Repr

structure Code where
  fix : FixCode
  agg : AggCode
  maxPoints : Int       -- Gen: maxFixPeriodPoints
  aggCap : Int          -- Gen: 4000000000
  deriving DecidableEq, Repr

/-- `time.Time.Truncate(d)` on an instant in Unix ns: multiples of `d` counted from the zero time (year 1) -/
def truncateT (t d : Int) : Int :=
  if d ≤ 0 then t else (Int.tdiv t d) * d      -- `_from/duration*duration`: the Unix-epoch grid of the SQL buckets (C08 fix), not time.Truncate

/-- the planners below `FixPeriodPlanner` that run synchronously in the handler: the internal aggregator's
    `process` (stream length), then the database query; the first row reaching the aggregator allocates its slice
    in a pipeline goroutine -/
def innerSync (c : Code) (fromT' toT' : Int) (pl : Plan) (db : DbScript) : Resp :=
  match pl.aggDur with
  | none => if db.mainFails then .err5xx else .result
  | some d =>
    match aggProcess c.aggCap fromT' toT' d with
    | .error _ => faultOutcome .handlerRecovered
    | .ok none => .err5xx
    | .ok (some n) =>
      if db.mainFails then .err5xx
      else if db.rows = [] then .result
      else match aggAlloc n with      -- make([]float64, streamLen*2)
        | .error _ => faultOutcome (if c.agg.tamed then .stageRecovered else .detached)
        | .ok _ => .result

/-- once the synchronous part succeeded the response header is out and the detached goroutine of
    `FixPeriodPlanner` runs over the rows -/
def afterSync (c : Code) (p : FixParams) (rows : List Entry) (inner : Resp) : Resp :=
  match inner with
  | .result =>
    (match fixGoroutine c.fix p rows with
     | .error _ => faultOutcome .detached
     | .ok _ => .result)
  | r => r

/-- `QueryRangeService.prepareOutput` + `chain[0].Process` + streaming: everything after the parameters -/
def lokiService (c : Code) (fromNs toNs stepMs : Int) (pl : Plan) (db : DbScript) : Resp :=
  if pl.parseOk = false then .err5xx
  else if db.versionFails then .err5xx
  else
    let fromT := fromNs   -- time.Unix(0, fromNs): the window keeps its sub-second part (A25 fix)
    let toT := toNs
    let step := wrap (stepMs * 1000000)
    if pl.matrix = false then
      (if db.mainFails then .err5xx else .result)
    else
      let p : FixParams := ⟨wrap fromT, wrap toT, step, pl.rangeDur⟩
      if c.fix.guard = true ∧ fixGuard c.maxPoints p = false then .err5xx
      else
        -- FixPeriodPlanner moves the window, then the inner planners run synchronously
        afterSync c p db.rows
          (innerSync c (truncateT fromT pl.rangeDur) (truncateT toT pl.rangeDur + pl.rangeDur) pl db)

structure QRParams where
  queryEmpty : Bool
  start : Parsed Int      -- int64(float) of `start`
  end_ : Parsed Int
  stepMs : Parsed Int     -- int64(seconds*1000) of `step`
  deriving DecidableEq, Repr

/-- `QueryRangeController.QueryRange` (limit and direction cannot fail: a bad limit is 0) -/
def lokiQueryRange (c : Code) (q : QRParams) (pl : Plan) (db : DbScript) : Resp :=
  if q.queryEmpty then .err4xx
  else match q.start, q.end_, q.stepMs with
    | .ok s, .ok e, .ok st => lokiService c s e st pl db
    | .ok s, .ok e, .absent => lokiService c s e 1000 pl db
    | _, _, _ => .err4xx

structure QIParams where
  queryEmpty : Bool
  time : Parsed Int       -- ParseInt of `time`
  now : Int               -- time.Now().UnixNano()
  stepMs : Parsed Int
  deriving DecidableEq, Repr

/-- `QueryRangeController.Query` -/
def lokiQueryInstant (c : Code) (q : QIParams) (pl : Plan) (db : DbScript) : Resp :=
  if q.queryEmpty then .err4xx
  else match q.time with
    | .invalid => .err5xx
    | t =>
      let t0 := match t with | .ok v => v | _ => 0
      let tm := if t0 = 0 then q.now else t0
      match q.stepMs with
      | .invalid => .err4xx
      | st =>
        let stepMs := match st with | .ok v => v | _ => 1000
        lokiService c (wrap (tm - 300000000000)) tm stepMs pl db

/-- `PromQueryRangeController.QueryRange` up to the engine call; `engineOk` = outcome of Prometheus' engine -/
structure PromQR where
  paramsOk : Bool          -- parseQueryRangePropsV2 (start, end, query, step) succeeded
  startSec : Int           -- req.Start.Unix()
  endSec : Int             -- req.End.Unix()
  step : Int               -- req.Step (ns)
  newQueryOk : Bool
  engineOk : Bool
  deriving DecidableEq, Repr

def promQueryRange (q : PromQR) : Resp :=
  if q.paramsOk = false then .err4xx
  else if q.step ≤ 0 then .err4xx
  else
    let s := (q.startSec.tdiv 15) * 15
    let e := ((q.endSec + 14).fdiv 15) * 15          -- ceil(end/15)*15 (for the int range of seconds)
    if 11000 < (sat ((e - s) * 1000000000)).tdiv q.step then .err5xx
    else if q.newQueryOk = false then .err5xx
    else if q.engineOk = false then .err5xx
    else .result

structure TraceReq where
  idLen : Nat
  firstBadPair : Option Nat
  recovered : Bool      -- `defer tamePanic` present
  sizedFromId : Bool    -- buffer `hex.DecodedLen(len(id))` (fixed) instead of 32 (pinned)
  queryFails : Bool
  deriving DecidableEq, Repr

/-- `TempoController.Trace` -/
def tempoTrace (t : TraceReq) : Resp :=
  match hexDecodeInto (if t.sizedFromId then t.idLen / 2 else 32) t.idLen t.firstBadPair with
  | .error _ => faultOutcome (if t.recovered then .handlerRecovered else .handlerBare)
  | .ok false => .err5xx
  | .ok true => if t.queryFails then .err5xx else .result

end Qryn.ReadSide
