import Qryn.Gen.StageDrains
import Qryn.ReadSide.PipelineH
/-! # Read side: the drain discipline of the stages, regenerated from source and INTERPRETED by the pipeline model (C12)

`Pipeline.lean` gives every stage a code property `drains` ("after it stops, its input is still consumed until close").
Until now the theorems assumed it (`start … (fun _ => true)`). Here it is computed from what the source says:
`Gen.StageDrains` (typed, SSA) lists every receive loop of the read side outside the controllers with
* every exit of the loop other than "the channel is closed" and what happens to the channel on the worst path from that
  exit to the end of the function — a drainer is started (`drain`), only a context is cancelled (`cancel`), nothing (`none`);
* whether the function recovers (a recovered panic is one more way out of the loop, at ANY point of the body);
* whether it defers a drainer of that channel before the loop (this covers every way out).

`StageCode.keepsConsumed` is the interpretation: an item with `err = true` stands for "the stage leaves its loop at this
batch, by whichever way out the adversary picks", so the stage keeps its input consumed iff EVERY way out does:
a deferred drainer, or — when there is no recover — every explicit exit drains. Cancelling does not count: no send of any
producer selects on a `Done` channel (`producers_rely_on_drain`).

`startC cs rows flush` / `hstartC …` build the request from a LIST OF STAGE CODES; the `drains` flag of stage `i` is
`(cs[i]).keepsConsumed`. Core-only. -/
namespace Qryn.ReadSide.Pipe

inductive PathEnd where
  | drain | cancel | none
  deriving DecidableEq, Repr

def PathEnd.ofString (s : String) : PathEnd :=
  if s == "drain" then .drain else if s == "cancel" then .cancel else .none

/-- what the source says about one receive loop -/
structure StageCode where
  name : String
  recovers : Bool
  deferredDrain : Bool
  exits : List PathEnd
  deriving DecidableEq, Repr

instance : Inhabited StageCode := ⟨⟨"", false, false, [.none]⟩⟩

abbrev GenStage := String × String × Bool × Bool × Bool × List (String × String)

def StageCode.ofGen (g : GenStage) : StageCode :=
  ⟨g.1, g.2.2.1, g.2.2.2.1, g.2.2.2.2.2.map (fun e => PathEnd.ofString e.2)⟩

/-- **the interpretation**: the stage's input stays consumed after it has left its loop, whichever way it left -/
def StageCode.keepsConsumed (c : StageCode) : Bool :=
  c.deferredDrain || (!c.recovers && c.exits.all (· == .drain))

/-- the `drains` flags of a pipeline assembled from these stages (a position beyond the list: a stage that does not drain) -/
def drainsOf (cs : List StageCode) (i : Nat) : Bool := (cs.getD i default).keepsConsumed

/-- the request over a pipeline of `cs.length` stages whose code is `cs` -/
def startC (cs : List StageCode) (rows : List Item) (flush : Nat → List Item) : Sys :=
  start cs.length rows flush (drainsOf cs)

def hstartC (cs : List StageCode) (rows : List Item) (flush : Nat → List Item) (onStop : OnStop) (sel : Bool) : HSys :=
  hstart cs.length rows flush (drainsOf cs) onStop sel

/-- a receive loop whose early exit cannot be taken: it stops reading only when `strconv.ParseInt` fails on a string its
    own producer formatted with `%d` -/
def unreachableExit : List String :=
  ["traceql/transpiler/complex_request_processor.go:(*reader/traceql/transpiler.ComplexRequestProcessor).ProcessComplexReqIteration#1"]

/-- the regenerated receive loops of types that are instantiated somewhere in the module (a planner that is never
    constructed — `logql_transpiler_v2.MatrixStepPlanner` — runs in no request), the unreachable exit left out -/
def liveStages : List StageCode :=
  ((Gen.StageDrains.stages.filter (fun g => g.2.2.2.2.1 && !unreachableExit.contains g.1)).map StageCode.ofGen)

/-- some stage has left its loop without keeping its input consumed while the source still has batches for it:
    the scanner's next send can never be received -/
structure Undrained (S : HSys) : Prop where
  pos : 0 < S.sys.n
  pending : S.sys.src ≠ []
  stopped : (S.sys.stg 0).stopped = true
  code : (S.sys.stg 0).drains = false
  nosel : S.sel = false

end Qryn.ReadSide.Pipe
