import Qryn.ReadSide.StageDiscipline
import Qryn.ReadSide.PipelineHExec
/-! # Read side: the executable schedule over a pipeline of regenerated stage codes (C12)

What the driver runs for the `stagedrain` correspondence stream (`c12sdrain`): a fake upstream sends batches, one of
which may carry an error entry; the REAL in-process stage (an aggregator over `GenericPlanner.WrapProcess`) stops at
the error; the consumer reads the stage's output to its end. The model runs `hsched` over `hstartC [code] …` where
`code` is what `Gen.StageDrains` says about the `WrapProcess` receive loop. Core-only. -/
namespace Qryn.ReadSide.Pipe

/-- the first stage has stopped without a drainer while the source still has a batch for it -/
def undrainedB (S : HSys) : Bool :=
  decide (0 < S.sys.n) && !S.sys.src.isEmpty && (S.sys.stg 0).stopped && !(S.sys.stg 0).drains && !S.sel

def verdictS (S : HSys) : String :=
  if hfinalB S then "final" else if undrainedB S then "blocked" else "open"

/-- upstream batches (`true` = the batch ends with an error entry) → one stage with the given code → a consumer that reads
    until close. An aggregating stage emits nothing per batch and one chunk at the end (unless it stopped). -/
def stageRun (code : StageCode) (batches : List Bool) : String :=
  let rows := batches.map (fun err => Item.mk err [])
  let S0 := hstartC [code] rows (fun _ => [.mk false []]) .drain false
  verdictS (hsched (S0.measure + 2) (S0.measure + 2) S0 0).1

/-- the regenerated code of the in-process stages' receive loop (`GenericPlanner.WrapProcess`) -/
def wrapProcessCode : StageCode :=
  match Gen.StageDrains.stages.find? (fun g => g.1 ==
      "logql/logql_transpiler_v2/internal_planner/planner_generic.go:(*reader/logql/logql_transpiler_v2/internal_planner.GenericPlanner).WrapProcess$1#1") with
  | some g => StageCode.ofGen g
  | none => default

end Qryn.ReadSide.Pipe
