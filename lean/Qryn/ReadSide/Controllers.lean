import Qryn.ReadSide.Params
/-! # Read side: the remaining controllers — parameter handling and status classes (C12)

`Params.lean` models Loki `query_range` / `query`, Prometheus `query_range` and the Tempo trace lookup. This module
models every other handler of `reader/controller` that is registered with the router:

* Loki `labels`, `label/{name}/values`, `series`, the websocket `tail` up to the upgrade (`queryLabelsController.go`,
  `queryRangeController.go Tail`);
* Prometheus `labels`, `label/{name}/values`, `series`, `metadata` (+ `query_exemplars`, `rules`), instant `query`
  (`promQueryLabelsController.go`, `promQueryInstantController.go`);
* Tempo `search` (tags and TraceQL), `search/tags` v1/v2, `search/tag/{tag}/values` v1/v2, `echo` (`tempoController.go`);
* Pyroscope `ProfileTypes`, `LabelNames`, `LabelValues`, `SelectMergeStacktraces`, `SelectSeries`, `SelectMergeProfile`,
  `Series`, `GetProfileStats`, `Settings`, `AnalyzeQuery`, `render-diff` (`profController.go`);
* the static answers of `miscController.go`.

A handler is a sequence of steps; a step returns normally, returns an error (the handler then answers with the status
class written next to that step in the source and returns), or faults (a Go panic: `tamePanic` turns it into a 500 when
the handler defers it — every handler below except the websocket tail). The stdlib parsers are not modelled: the model
starts from their outcome (`Parsed`: parameter absent / rejected / any int64) or from the outcome of the step as a whole
(`Out`). What a service call returns is an input (`Out`), quantified over in the theorems; the correspondence stream
`status-all` derives it from the real parsers and the database script. Quirks of the code are kept: Loki `series`
answers 400 for a database error; Prometheus `label values` ignores a bad `start`/`end`; Tempo v2 tags/values fall back
to the v1 service when `start` is absent or `0`; an empty `query` on the tail is answered 200 with an empty body.
Core-only. -/
namespace Qryn.ReadSide

/-- what one step of a handler does -/
inductive Out where
  | ok | err | fault
  deriving DecidableEq, Repr

/-- the handler runs its steps in order; `(c, o)`: the step's outcome is `o`, and the handler answers `c` when the step
    returns an error -/
def runSteps (recovers : Bool) : List (Resp × Out) → Resp
  | [] => .result
  | (_, .ok) :: rest => runSteps recovers rest
  | (c, .err) :: _ => c
  | (_, .fault) :: _ => faultOutcome (if recovers then .handlerRecovered else .handlerBare)

/-- a parser applied to a parameter: absent → the default is used; rejected → an error; a value → continue -/
def Parsed.out {α : Type} : Parsed α → Out
  | .invalid => .err
  | _ => .ok

/-- several parameters parsed one after the other by one helper (`ParseTimeParamsV2`, `parseTraceSearchParams`, …):
    the helper returns the first error -/
def allOut : List Out → Out
  | [] => .ok
  | .ok :: rest => allOut rest
  | o :: _ => o

/-! ## Loki labels / values / series (queryLabelsController.go) -/

/-- `ParseTimeParamsV2`: the POST form (when the request is a form post), then `start`, then `end` (ParseInt, base 10) -/
def timeParamsV2 (form : Out) (start end_ : Parsed Int) : Out := allOut [form, start.out, end_.out]

/-- `Labels`: plugins 500 · time parameters 500 · service 500 · stream -/
def lokiLabels (plugins form : Out) (start end_ : Parsed Int) (svc : Out) : Resp :=
  runSteps true [(.err5xx, plugins), (.err5xx, timeParamsV2 form start end_), (.err5xx, svc)]

/-- `Values`: plugins 500 · `ParseLogSeriesParamsV2` 500 · empty label name 500 · service 500 -/
def lokiValues (plugins form : Out) (start end_ : Parsed Int) (nameEmpty : Bool) (svc : Out) : Resp :=
  runSteps true [(.err5xx, plugins), (.err5xx, timeParamsV2 form start end_),
    (.err5xx, if nameEmpty then .err else .ok), (.err5xx, svc)]

/-- `Series`: plugins 500 · `len(params.Match) == 0` 400 — tested BEFORE the parse error, and a failed parse leaves
    `Match` empty · parse error 400 · service error 400 (sic) -/
def lokiSeries (plugins form : Out) (start end_ : Parsed Int) (noMatch : Bool) (svc : Out) : Resp :=
  let parse := timeParamsV2 form start end_
  runSteps true [(.err5xx, plugins),
    (.err4xx, match parse with | .fault => .fault | .err => .err | .ok => if noMatch then .err else .ok),
    (.err4xx, svc)]

/-- the websocket `Tail` up to the upgrade. NO `defer tamePanic`: a fault of a step is caught by net/http only.
    plugins 500 · empty `query`: logged, the handler returns (200, empty body) · `QueryRangeService.Tail` error: logged,
    returns (200, empty body) · upgrade refused: the upgrader has answered 400 · otherwise 101 and the stream -/
def lokiTail (plugins : Out) (queryEmpty : Bool) (svc : Out) (upgradeOk : Bool) : Resp :=
  match plugins with
  | .fault => faultOutcome .handlerBare
  | .err => .err5xx
  | .ok =>
    if queryEmpty then .result
    else match svc with
      | .fault => faultOutcome .handlerBare
      | .err => .result
      | .ok => if upgradeOk then .result else .err4xx

/-! ## Prometheus labels / values / series / metadata / instant query -/

/-- `PromLabels`: plugins 500 · `getLabelsParams` 400 (only the form can be rejected: `start`/`end` fall back to the
    defaults) · `getPromSeriesParamsV2` 400 (the `match[]` list, since the C17 fix that makes the endpoint honour it) ·
    service 500 -/
def promLabels (plugins form form2 svc : Out) : Resp :=
  runSteps true [(.err5xx, plugins), (.err4xx, form), (.err4xx, form2), (.err5xx, svc)]

/-- `LabelValues`: plugins 500 · the error of `ParseLogSeriesParamsV2` is DROPPED — and with it the `match[]` values, which
    the helper only reads after the window (the service then runs without matchers, over the zero window) · empty name 400 ·
    service 500 -/
def promLabelValues (plugins params : Out) (nameEmpty : Bool) (svcWithMatch svcNoMatch : Out) : Resp :=
  runSteps true [(.err5xx, plugins), (.err5xx, match params with | .fault => .fault | _ => .ok),
    (.err4xx, if nameEmpty then .err else .ok), (.err5xx, if params = .err then svcNoMatch else svcWithMatch)]

/-- `Series`: plugins 500 · `getLabelsParams` 400 · `getPromSeriesParamsV2` 400 · service 500 -/
def promSeries (plugins form form2 svc : Out) : Resp :=
  runSteps true [(.err5xx, plugins), (.err4xx, form), (.err4xx, form2), (.err5xx, svc)]

/-- `Metadata` (also `query_exemplars`, `rules`): plugins 500 · static answer -/
def promMetadata (plugins : Out) : Resp := runSteps true [(.err5xx, plugins)]

/-- `parseQueryInstantProps`: form · `time` (`ParseTimeSecOrRFC`) · `query` must not be empty -/
def instantProps (form : Out) (time : Parsed Int) (queryEmpty : Bool) : Out :=
  allOut [form, time.out, if queryEmpty then .err else .ok]

/-- `QueryInstant`: plugins 500 · parameters 400 · `NewInstantQuery` 500 · `Exec` 500 · `writeResponse` 500 -/
def promQueryInstant (plugins form : Out) (time : Parsed Int) (queryEmpty : Bool) (newQuery exec write : Out) : Resp :=
  runSteps true [(.err5xx, plugins), (.err4xx, instantProps form time queryEmpty), (.err5xx, newQuery),
    (.err5xx, exec), (.err5xx, write)]

/-! ## Tempo search / tags / values / echo -/

/-- `Tags` / `Values` (v1): plugins 500 · service 500 · stream -/
def tempoTagsV1 (plugins svc : Out) : Resp := runSteps true [(.err5xx, plugins), (.err5xx, svc)]

/-- `TagsV2` / `ValuesV2`: plugins 500 · `start` 400 · `end` 400 (`limit` cannot fail: a bad one is 2000) · the v1 service
    when `start` is absent or 0 (`timespan[0].Unix() == 0`), otherwise the v2 service: 500 · `json.Marshal` 500 -/
def tempoTagsV2 (plugins : Out) (start end_ : Parsed Int) (svcV1 svcV2 marshal : Out) : Resp :=
  let startSec : Int := match start with | .ok v => v | _ => 0
  runSteps true [(.err5xx, plugins), (.err4xx, start.out), (.err4xx, end_.out),
    (.err5xx, if startSec = 0 then svcV1 else svcV2), (.err5xx, marshal)]

/-- `isUnixSecond` (after C13's `fix: /api/search refuses a start / end that is negative or whose nanoseconds leave int64`): a parsed
    second must lie in `0 … math.MaxInt64 / 10⁹` -/
def unixSecond (p : Parsed Int) : Out :=
  match p with
  | .ok v => if v < 0 ∨ v > 9223372036 then .err else .ok
  | _ => .ok

/-- `parseTraceSearchParams`: minDuration, maxDuration (`time.ParseDuration`), limit, start, end (`strconv.Atoi`, then the range
    check of `isUnixSecond`) -/
def searchParams (minDur maxDur limit start end_ : Parsed Int) : Out :=
  allOut [minDur.out, maxDur.out, limit.out, start.out, unixSecond start, end_.out, unixSecond end_]

/-- `Search`: plugins 500 · parameters 400 · `q` given: `SearchTraceQL` 500, otherwise `Search` 500 · stream -/
def tempoSearch (plugins : Out) (minDur maxDur limit start end_ : Parsed Int) (hasQ : Bool) (svcQL svcTags : Out) : Resp :=
  runSteps true [(.err5xx, plugins), (.err4xx, searchParams minDur maxDur limit start end_),
    (.err5xx, if hasQ then svcQL else svcTags)]

/-- `Echo`, `MiscController.Metadata`, `MiscController.Buildinfo`: a constant answer (no recover, nothing that can fault:
    their whole stack is in the typed census) -/
def staticAnswer : Resp := runSteps false []

/-! ## Pyroscope (profController.go) -/

/-- the Connect-style endpoints: `defaultParser` (body: JSON or protobuf) 400 · service 500 · `defaultMarshaller` 500 -/
def profEndpoint (parse svc marshal : Out) : Resp :=
  runSteps true [(.err4xx, parse), (.err5xx, svc), (.err5xx, marshal)]

/-- `ProfileStats`, `Settings`: no request body · service 500 · marshal 500 -/
def profNoBody (svc marshal : Out) : Resp := runSteps true [(.err5xx, svc), (.err5xx, marshal)]

/-- `RenderDiff`: each of the six parameters must be present and not empty 400 · the four times must be integers 400 ·
    service 500 -/
def profRenderDiff (missing : Bool) (leftFrom leftUntil rightFrom rightUntil : Parsed Int) (svc : Out) : Resp :=
  runSteps true [(.err4xx, if missing then .err else .ok),
    (.err4xx, allOut [leftFrom.out, leftUntil.out, rightFrom.out, rightUntil.out]), (.err5xx, svc)]

/-! ## the status codes in the source -/

/-- class of an HTTP status code as written in the source -/
def classOfCode (c : Nat) : Resp :=
  if 200 ≤ c ∧ c < 400 then .result else if 400 ≤ c ∧ c < 500 then .err4xx else if 500 ≤ c ∧ c < 600 then .err5xx else .aborted

/-- the error answers of each handler in source order, as the model uses them: (handler, the status codes of its
    `PromError` / `defaultError` calls). Compared with the regenerated `Gen.ReadSide.handlerCodes` by
    `handler_status_codes_as_modelled`. -/
def modelledCodes : List (String × List Nat) :=
  [("MiscController.Buildinfo", []),
   ("MiscController.Config", []),
   ("MiscController.Metadata", []),
   ("MiscController.Ready", []),
   ("MiscController.Rules", []),
   ("ProfController.AnalyzeQuery", [400, 500]),
   ("ProfController.LabelNames", [400, 500]),
   ("ProfController.LabelValues", [400, 500]),
   ("ProfController.MergeProfiles", [400, 500]),
   ("ProfController.NotImplemented", []),
   ("ProfController.ProfileStats", [500]),
   ("ProfController.ProfileTypes", [400, 500]),
   ("ProfController.RenderDiff", [400, 400, 500]),
   ("ProfController.SelectMergeStackTraces", [400, 500]),
   ("ProfController.SelectSeries", [400, 500]),
   ("ProfController.Series", [400, 500]),
   ("ProfController.Settings", [500]),
   ("ProfController.writeResponse", [500]),
   ("PromQueryLabelsController.LabelValues", [500, 400, 500]),
   ("PromQueryLabelsController.Metadata", [500]),
   ("PromQueryLabelsController.PromLabels", [500, 400, 400, 500]),
   ("PromQueryLabelsController.Series", [500, 400, 400, 500]),
   ("PromQueryRangeController.QueryInstant", [500, 400, 500, 500, 500]),
   ("PromQueryRangeController.QueryRange", [500, 400, 400, 500, 500, 500, 500]),
   ("QueryLabelsController.Labels", [500, 500, 500]),
   ("QueryLabelsController.Series", [500, 400, 400, 400]),
   ("QueryLabelsController.Values", [500, 500, 500, 500]),
   ("QueryRangeController.Query", [500, 400, 500, 400, 500]),
   ("QueryRangeController.QueryRange", [500, 400, 400, 500]),
   ("QueryRangeController.Tail", [500, 500]),
   ("TempoController.Echo", []),
   ("TempoController.Search", [500, 400, 500, 500]),
   ("TempoController.Tags", [500, 500]),
   ("TempoController.TagsV2", [500, 400, 500, 500]),
   ("TempoController.Trace", [500, 400, 500, 500, 500, 500]),
   ("TempoController.Values", [500, 500]),
   ("TempoController.ValuesV2", [500, 400, 500, 500])]

end Qryn.ReadSide
