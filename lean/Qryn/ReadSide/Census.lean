import Qryn.Gen.ReadGoroutines
/-! # Read side: the reviewed fault-site census of the goroutines started under reader/ (C12)

`Gen.ReadGoroutines` (regenerated from /repo on every run) lists, for every `go` statement under reader/ whose
goroutine has no recover of its own, the syntactic places where the Go run time can panic on that goroutine's stack
(its own body, deferred calls, local closures, callbacks and same-package callees, four levels deep; a deeper call is
itself a site). This module holds the REVIEW of that list: one `Why` per site. `Props/C12.lean` proves that the review
covers the regenerated list exactly (same goroutines, same sites in the same order) and that every cited dominating
condition is one the translator found at that site, so an edit that adds, removes or re-words a fault site — or removes
the guard a classification relies on — breaks the theorem until the site is reviewed again.

Core-only. -/
namespace Qryn.ReadSide.Census

/-- why a syntactic fault site cannot bring the process down -/
inductive Why where
  /-- the arithmetic / indexing at this site is part of an executable model and its fault-freedom is a theorem -/
  | modelled (thm : String)
  /-- in range because of this dominating condition; it must be among the conditions regenerated for the site -/
  | guarded (cond : String)
  /-- the indexed slice was created with exactly the length the index ranges over -/
  | sizedBy (what : String)
  /-- read or write of a map that has just been created -/
  | mapAccess (what : String)
  /-- `close(ch)`: the only close of that channel in the function that owns it (regenerated fact `sole close of …`) -/
  | ownChannel
  /-- `ch <- v`: nobody else closes `ch` (see `ownChannel`); it cannot block for ever because the named consumer reads until close -/
  | drainedBy (consumer : String)
  /-- relies on the documented behaviour of the callee named -/
  | contract (what : String)
  /-- cannot fault, or the dropped error only degrades the output -/
  | harmless (what : String)
  /-- a panic the authors want -/
  | deliberate (what : String)
  deriving DecidableEq, Repr

structure Entry where
  kind : String
  fn : String
  text : String
  why : Why
  deriving DecidableEq, Repr

/-- the review, goroutine by goroutine, in the translator's order -/
def reviewed : List (String × List Entry) :=
 [
  ("controller/queryRangeController.go:QueryRangeController.Tail#1",
   []),
  ("controller/queryRangeController.go:QueryRangeController.Tail#2",
   []),
  ("logql/logql_transpiler_v2/planner_from_fix.go:FixPeriodPlanner.Process#1",
   [⟨"close", "FixPeriodPlanner.Process#1", "close(res)",
      .ownChannel⟩,
    ⟨"send", "FixPeriodPlanner.Process#1/exportEntries", "res <- entries",
      .drainedBy "the next pipeline stage or the exporter: consumers_drain"⟩,
    ⟨"make", "FixPeriodPlanner.Process#1", "make([]float64, (_to-_from)/step+1)",
      .modelled "detached_goroutines_fault_free (1): fixProcess — refused synchronously by fixGuard or no fault for all int64 parameters and rows"⟩,
    ⟨"div", "FixPeriodPlanner.Process#1", "(_to - _from) / step",
      .modelled "detached_goroutines_fault_free (1): fixProcess — refused synchronously by fixGuard or no fault for all int64 parameters and rows"⟩,
    ⟨"div", "FixPeriodPlanner.Process#1", "entry.TimestampNS / duration",
      .modelled "detached_goroutines_fault_free (1): fixProcess — refused synchronously by fixGuard or no fault for all int64 parameters and rows"⟩,
    ⟨"div", "FixPeriodPlanner.Process#1", "((entry.TimestampNS/duration)*duration - _from) / step",
      .modelled "detached_goroutines_fault_free (1): fixProcess — refused synchronously by fixGuard or no fault for all int64 parameters and rows"⟩,
    ⟨"div", "FixPeriodPlanner.Process#1", "((entry.TimestampNS/duration+1)*duration - _from) / step",
      .modelled "detached_goroutines_fault_free (1): fixProcess — refused synchronously by fixGuard or no fault for all int64 parameters and rows"⟩,
    ⟨"slice", "FixPeriodPlanner.Process#1", "values[idxFrom : idxTo+1]",
      .modelled "detached_goroutines_fault_free (1): fixProcess — refused synchronously by fixGuard or no fault for all int64 parameters and rows"⟩,
    ⟨"store", "fastFill", "v[0]",
      .modelled "detached_goroutines_fault_free (1): fixProcess — refused synchronously by fixGuard or no fault for all int64 parameters and rows"⟩,
    ⟨"slice", "fastFill", "v[l:]",
      .guarded "for l < len(v)"⟩,
    ⟨"slice", "fastFill", "v[:l]",
      .guarded "for l < len(v)"⟩]),
  ("logql/logql_transpiler_v2/internal_planner/planner_generic.go:GenericPlanner.WrapProcess#2",
   []),
  ("logql/logql_transpiler_v2/internal_planner/planner_generic.go:GenericPlanner.WrapProcess#3",
   []),
  ("logql/logql_transpiler_v2/shared/planner_clickhouse_getter.go:ClickhouseGetterPlanner.Process#1",
   [⟨"close", "ClickhouseGetterPlanner.Scan", "close(res)",
      .ownChannel⟩,
    ⟨"send", "ClickhouseGetterPlanner.Scan", "res <- entries[:i]",
      .drainedBy "the next pipeline stage or the exporter: consumers_drain"⟩,
    ⟨"slice", "ClickhouseGetterPlanner.Scan", "entries[:i]",
      .modelled "detached_goroutines_fault_free (2): scanLoop — the index stays below the batch size for every row-event sequence"⟩,
    ⟨"index", "ClickhouseGetterPlanner.Scan", "entries[i]",
      .modelled "detached_goroutines_fault_free (2): scanLoop — the index stays below the batch size for every row-event sequence"⟩,
    ⟨"index", "ClickhouseGetterPlanner.Scan", "entries[i]",
      .modelled "detached_goroutines_fault_free (2): scanLoop — the index stays below the batch size for every row-event sequence"⟩,
    ⟨"send", "ClickhouseGetterPlanner.Scan", "res <- entries[:i+1]",
      .drainedBy "the next pipeline stage or the exporter: consumers_drain"⟩,
    ⟨"slice", "ClickhouseGetterPlanner.Scan", "entries[:i+1]",
      .modelled "detached_goroutines_fault_free (2): scanLoop — the index stays below the batch size for every row-event sequence"⟩,
    ⟨"index", "ClickhouseGetterPlanner.Scan", "entries[i]",
      .modelled "detached_goroutines_fault_free (2): scanLoop — the index stays below the batch size for every row-event sequence"⟩,
    ⟨"store", "ClickhouseGetterPlanner.Scan", "entries[i].Labels[k]",
      .mapAccess "entries[i].Labels was assigned make(map[string]string) by the statement before the `range labels` loop; entries[i] itself: scanLoop"⟩,
    ⟨"index", "ClickhouseGetterPlanner.Scan", "entries[i]",
      .modelled "detached_goroutines_fault_free (2): scanLoop — the index stays below the batch size for every row-event sequence"⟩,
    ⟨"send", "ClickhouseGetterPlanner.Scan", "res <- entries",
      .drainedBy "the next pipeline stage or the exporter: consumers_drain"⟩,
    ⟨"index", "ClickhouseGetterPlanner.Scan", "entries[i]",
      .modelled "detached_goroutines_fault_free (2): scanLoop — the index stays below the batch size for every row-event sequence"⟩,
    ⟨"send", "ClickhouseGetterPlanner.Scan", "res <- entries[:i+1]",
      .drainedBy "the next pipeline stage or the exporter: consumers_drain"⟩,
    ⟨"slice", "ClickhouseGetterPlanner.Scan", "entries[:i+1]",
      .modelled "detached_goroutines_fault_free (2): scanLoop — the index stays below the batch size for every row-event sequence"⟩]),
  ("logql/logql_transpiler_v2/shared/planner_clickhouse_getter.go:ClickhouseGetterPlanner.Process#2",
   [⟨"close", "ClickhouseGetterPlanner.ScanMatrix", "close(res)",
      .ownChannel⟩,
    ⟨"send", "ClickhouseGetterPlanner.ScanMatrix", "res <- entries[:i]",
      .drainedBy "the next pipeline stage or the exporter: consumers_drain"⟩,
    ⟨"slice", "ClickhouseGetterPlanner.ScanMatrix", "entries[:i]",
      .modelled "detached_goroutines_fault_free (2): scanLoop — the index stays below the batch size for every row-event sequence"⟩,
    ⟨"index", "ClickhouseGetterPlanner.ScanMatrix", "entries[i]",
      .modelled "detached_goroutines_fault_free (2): scanLoop — the index stays below the batch size for every row-event sequence"⟩,
    ⟨"index", "ClickhouseGetterPlanner.ScanMatrix", "entries[i]",
      .modelled "detached_goroutines_fault_free (2): scanLoop — the index stays below the batch size for every row-event sequence"⟩,
    ⟨"send", "ClickhouseGetterPlanner.ScanMatrix", "res <- entries[:i+1]",
      .drainedBy "the next pipeline stage or the exporter: consumers_drain"⟩,
    ⟨"slice", "ClickhouseGetterPlanner.ScanMatrix", "entries[:i+1]",
      .modelled "detached_goroutines_fault_free (2): scanLoop — the index stays below the batch size for every row-event sequence"⟩,
    ⟨"index", "ClickhouseGetterPlanner.ScanMatrix", "entries[i]",
      .modelled "detached_goroutines_fault_free (2): scanLoop — the index stays below the batch size for every row-event sequence"⟩,
    ⟨"store", "ClickhouseGetterPlanner.ScanMatrix", "entries[i].Labels[k]",
      .mapAccess "entries[i].Labels was assigned make(map[string]string) by the statement before the `range labels` loop; entries[i] itself: scanLoop"⟩,
    ⟨"index", "ClickhouseGetterPlanner.ScanMatrix", "entries[i]",
      .modelled "detached_goroutines_fault_free (2): scanLoop — the index stays below the batch size for every row-event sequence"⟩,
    ⟨"send", "ClickhouseGetterPlanner.ScanMatrix", "res <- entries",
      .drainedBy "the next pipeline stage or the exporter: consumers_drain"⟩,
    ⟨"index", "ClickhouseGetterPlanner.ScanMatrix", "entries[i]",
      .modelled "detached_goroutines_fault_free (2): scanLoop — the index stays below the batch size for every row-event sequence"⟩,
    ⟨"send", "ClickhouseGetterPlanner.ScanMatrix", "res <- entries[:i+1]",
      .drainedBy "the next pipeline stage or the exporter: consumers_drain"⟩,
    ⟨"slice", "ClickhouseGetterPlanner.ScanMatrix", "entries[:i+1]",
      .modelled "detached_goroutines_fault_free (2): scanLoop — the index stays below the batch size for every row-event sequence"⟩]),
  ("service/queryLabelsService.go:QueryLabelsService.GenericLabelReq#1",
   [⟨"close", "QueryLabelsService.GenericLabelReq#1", "close(res)",
      .ownChannel⟩,
    ⟨"send", "QueryLabelsService.GenericLabelReq#1", "res <- `{\"status\": \"success\",\"data\": [`",
      .drainedBy "the handler's `for … := range ch` copy loop: handler_loops_read_to_close"⟩,
    ⟨"send", "QueryLabelsService.GenericLabelReq#1", "res <- \",\"",
      .drainedBy "the handler's `for … := range ch` copy loop: handler_loops_read_to_close"⟩,
    ⟨"send", "QueryLabelsService.GenericLabelReq#1", "res <- string(qStrLbl)",
      .drainedBy "the handler's `for … := range ch` copy loop: handler_loops_read_to_close"⟩,
    ⟨"send", "QueryLabelsService.GenericLabelReq#1", "res <- \"]}\"",
      .drainedBy "the handler's `for … := range ch` copy loop: handler_loops_read_to_close"⟩]),
  ("service/queryLabelsService.go:QueryLabelsService.Series#1",
   [⟨"close", "QueryLabelsService.Series#1", "close(res)",
      .ownChannel⟩,
    ⟨"send", "QueryLabelsService.Series#1", "res <- `{\"status\":\"success\", \"data\":[]}`",
      .drainedBy "the handler's `for … := range ch` copy loop: handler_loops_read_to_close"⟩]),
  -- (c17z) `Series` / `PromSeries` share the statement building and the two senders of `series`
  ("service/queryLabelsService.go:QueryLabelsService.series#1",
   [⟨"close", "QueryLabelsService.series#1", "close(res)",
      .contract "series starts its two goroutines on exclusive paths (`if fingerprints == nil { go …; return res, nil }`): each run closes res once"⟩,
    ⟨"send", "QueryLabelsService.series#1", "res <- `{\"status\":\"success\", \"data\":[]}`",
      .drainedBy "the handler's `for … := range ch` copy loop: handler_loops_read_to_close"⟩]),
  ("service/queryLabelsService.go:QueryLabelsService.series#2",
   [⟨"close", "QueryLabelsService.series#2", "close(res)",
      .contract "series starts its two goroutines on exclusive paths (`if fingerprints == nil { go …; return res, nil }`): each run closes res once"⟩,
    ⟨"send", "QueryLabelsService.series#2", "res <- `{\"status\":\"success\", \"data\":[`",
      .drainedBy "the handler's `for … := range ch` copy loop: handler_loops_read_to_close"⟩,
    ⟨"send", "QueryLabelsService.series#2", "res <- \",\"",
      .drainedBy "the handler's `for … := range ch` copy loop: handler_loops_read_to_close"⟩,
    ⟨"send", "QueryLabelsService.series#2", "res <- lbls",
      .drainedBy "the handler's `for … := range ch` copy loop: handler_loops_read_to_close"⟩,
    ⟨"send", "QueryLabelsService.series#2", "res <- `]}`",
      .drainedBy "the handler's `for … := range ch` copy loop: handler_loops_read_to_close"⟩]),
  ("service/queryRangeService.go:QueryRangeService.QueryRange#1",
   [⟨"close", "QueryRangeService.exportStreamsValue", "close(res)",
      .ownChannel⟩,
    ⟨"send", "QueryRangeService.exportStreamsValue", "res <- model.QueryRangeOutput{Str: string(stream.Buffer())}",
      .drainedBy "the handler's `for … := range ch` copy loop: handler_loops_read_to_close"⟩,
    ⟨"send", "onErr", "res <- model.QueryRangeOutput{Str: \"]}}\", Err: err}",
      .drainedBy "the handler's `for … := range ch` copy loop: handler_loops_read_to_close"⟩,
    ⟨"send", "QueryRangeService.exportStreamsValue", "res <- model.QueryRangeOutput{Str: string(stream.Buffer())}",
      .drainedBy "the handler's `for … := range ch` copy loop: handler_loops_read_to_close"⟩,
    ⟨"send", "QueryRangeService.exportStreamsValue", "res <- model.QueryRangeOutput{Str: string(stream.Buffer())}",
      .drainedBy "the handler's `for … := range ch` copy loop: handler_loops_read_to_close"⟩]),
  ("service/queryRangeService.go:QueryRangeService.QueryRange#2",
   [⟨"close", "QueryRangeService.QueryRange#2", "close(res)",
      .ownChannel⟩,
    ⟨"send", "QueryRangeService.QueryRange#2", "res <- model.QueryRangeOutput{Str: string(stream.Buffer())}",
      .drainedBy "the handler's `for … := range ch` copy loop: handler_loops_read_to_close"⟩,
    ⟨"send", "onErr", "res <- model.QueryRangeOutput{Str: \"]}}\", Err: err}",
      .drainedBy "the handler's `for … := range ch` copy loop: handler_loops_read_to_close"⟩,
    ⟨"send", "QueryRangeService.QueryRange#2", "res <- model.QueryRangeOutput{Str: string(stream.Buffer())}",
      .drainedBy "the handler's `for … := range ch` copy loop: handler_loops_read_to_close"⟩,
    ⟨"send", "QueryRangeService.QueryRange#2", "res <- model.QueryRangeOutput{Str: string(stream.Buffer())}",
      .drainedBy "the handler's `for … := range ch` copy loop: handler_loops_read_to_close"⟩]),
  ("service/queryRangeService.go:QueryRangeService.QueryInstant#1",
   [⟨"close", "QueryRangeService.exportStreamsValue", "close(res)",
      .ownChannel⟩,
    ⟨"send", "QueryRangeService.exportStreamsValue", "res <- model.QueryRangeOutput{Str: string(stream.Buffer())}",
      .drainedBy "the handler's `for … := range ch` copy loop: handler_loops_read_to_close"⟩,
    ⟨"send", "onErr", "res <- model.QueryRangeOutput{Str: \"]}}\", Err: err}",
      .drainedBy "the handler's `for … := range ch` copy loop: handler_loops_read_to_close"⟩,
    ⟨"send", "QueryRangeService.exportStreamsValue", "res <- model.QueryRangeOutput{Str: string(stream.Buffer())}",
      .drainedBy "the handler's `for … := range ch` copy loop: handler_loops_read_to_close"⟩,
    ⟨"send", "QueryRangeService.exportStreamsValue", "res <- model.QueryRangeOutput{Str: string(stream.Buffer())}",
      .drainedBy "the handler's `for … := range ch` copy loop: handler_loops_read_to_close"⟩]),
  ("service/queryRangeService.go:QueryRangeService.QueryInstant#2",
   [⟨"close", "QueryRangeService.QueryInstant#2", "close(res)",
      .ownChannel⟩,
    ⟨"send", "QueryRangeService.QueryInstant#2", "res <- model.QueryRangeOutput{Str: string(stream.Buffer())}",
      .drainedBy "the handler's `for … := range ch` copy loop: handler_loops_read_to_close"⟩,
    ⟨"send", "onErr", "res <- model.QueryRangeOutput{Str: \"]}}\", Err: err}",
      .drainedBy "the handler's `for … := range ch` copy loop: handler_loops_read_to_close"⟩,
    ⟨"send", "QueryRangeService.QueryInstant#2", "res <- model.QueryRangeOutput{Str: string(stream.Buffer())}",
      .drainedBy "the handler's `for … := range ch` copy loop: handler_loops_read_to_close"⟩]),
  ("service/queryRangeService.go:QueryRangeService.Tail#2",
   []),
  ("service/queryRangeService.go:QueryRangeService.Tail#3",
   []),
  ("service/tempoService.go:TempoService.Tags#1",
   [⟨"close", "TempoService.Tags#1", "close(res)",
      .ownChannel⟩,
    ⟨"send", "TempoService.Tags#1", "res <- k",
      .drainedBy "the handler's `for … := range ch` copy loop: handler_loops_read_to_close"⟩]),
  ("service/tempoService.go:TempoService.TagsV2#1",
   [⟨"close", "TempoService.TagsV2#1", "close(res)",
      .ownChannel⟩,
    ⟨"send", "TempoService.TagsV2#1", "res <- value",
      .drainedBy "the handler's `for … := range ch` copy loop: handler_loops_read_to_close"⟩]),
  ("service/tempoService.go:TempoService.ValuesV2#1",
   [⟨"close", "TempoService.ValuesV2#1", "close(res)",
      .ownChannel⟩,
    ⟨"send", "TempoService.ValuesV2#1", "res <- value",
      .drainedBy "the handler's `for … := range ch` copy loop: handler_loops_read_to_close"⟩]),
  ("service/tempoService.go:TempoService.Values#1",
   [⟨"close", "TempoService.Values#1", "close(res)",
      .ownChannel⟩,
    ⟨"send", "TempoService.Values#1", "res <- v",
      .drainedBy "the handler's `for … := range ch` copy loop: handler_loops_read_to_close"⟩]),
  ("service/tempoService.go:TempoService.Search#1",
   [⟨"close", "TempoService.Search#1", "close(res)",
      .ownChannel⟩,
    ⟨"send", "TempoService.Search#1", "res <- &row",
      .drainedBy "the handler's `for … := range ch` copy loop: handler_loops_read_to_close"⟩]),
  ("service/tempoServiceTraceQL.go:TempoService.SearchTraceQL#1",
   [⟨"close", "TempoService.SearchTraceQL#1", "close(res)",
      .ownChannel⟩,
    ⟨"dyn", "TempoService.SearchTraceQL#1", "cancel",
      .harmless "a context.CancelFunc: never nil here (result of context.WithCancel), calling it twice is allowed"⟩,
    ⟨"send", "TempoService.SearchTraceQL#1", "res <- ch",
      .drainedBy "TempoController.Search `for traces := range ch`: handler_loops_read_to_close"⟩]),
  ("traceql/transpiler/complex_request_processor.go:ComplexRequestProcessor.Process#1",
   [⟨"close", "ComplexRequestProcessor.Process#1", "close(ch)",
      .ownChannel⟩,
    ⟨"send", "ComplexRequestProcessor.Process#1", "ch <- res",
      .drainedBy "SearchTraceQL#1 forwards until close; ProcessComplexReqIteration reads until close (its early return is unreachable: consumers_drain)"⟩]),
  ("traceql/transpiler/complex_tags_v2_processor.go:allTagsV2RequestProcessor.Process#1",
   [⟨"close", "allTagsV2RequestProcessor.Process#1", "close(res)",
      .ownChannel⟩]),
  ("traceql/transpiler/complex_values_v2_processor.go:allValuesV2RequestProcessor.Process#1",
   [⟨"close", "allValuesV2RequestProcessor.Process#1", "close(res)",
      .ownChannel⟩]),
  ("traceql/transpiler/reqest_processor.go:TraceQLRequestProcessor.Process#1",
   [⟨"close", "TraceQLRequestProcessor.Process#1", "close(res)",
      .ownChannel⟩,
    ⟨"index", "TraceQLRequestProcessor.Process#1", "timestampsNs[i]",
      .modelled "detached_goroutines_fault_free (3): traceqlRow — the three arrays are groupArrays over the same rows"⟩,
    ⟨"index", "TraceQLRequestProcessor.Process#1", "trace.SpanSet.Spans[i]",
      .sizedBy "Spans: make([]model.SpanInfo, len(spanIds)) and i is the key of `range spanIds`"⟩,
    ⟨"index", "TraceQLRequestProcessor.Process#1", "durationsNs[i]",
      .modelled "detached_goroutines_fault_free (3): traceqlRow — the three arrays are groupArrays over the same rows"⟩,
    ⟨"index", "TraceQLRequestProcessor.Process#1", "trace.SpanSet.Spans[i]",
      .sizedBy "Spans: make([]model.SpanInfo, len(spanIds)) and i is the key of `range spanIds`"⟩,
    ⟨"index", "TraceQLRequestProcessor.Process#1", "timestampsNs[i]",
      .modelled "detached_goroutines_fault_free (3): traceqlRow — the three arrays are groupArrays over the same rows"⟩,
    ⟨"index", "sortSpans", "spans[_i]",
      .contract "sort.Slice calls less(i, j) with 0 ≤ i, j < len(spans)"⟩,
    ⟨"errdrop", "sortSpans", "s1, _ := strconv.ParseInt(spans[_i].StartTimeUnixNano, 10, 64)",
      .harmless "ParseInt of a string this goroutine formatted with %d; on failure 0, which only affects the order"⟩,
    ⟨"index", "sortSpans", "spans[j]",
      .contract "sort.Slice calls less(i, j) with 0 ≤ i, j < len(spans)"⟩,
    ⟨"errdrop", "sortSpans", "s2, _ := strconv.ParseInt(spans[j].StartTimeUnixNano, 10, 64)",
      .harmless "ParseInt of a string this goroutine formatted with %d; on failure 0, which only affects the order"⟩,
    ⟨"send", "TraceQLRequestProcessor.Process#1", "res <- []model.TraceInfo{trace}",
      .drainedBy "SearchTraceQL#1 forwards until close; ProcessComplexReqIteration reads until close (its early return is unreachable: consumers_drain)"⟩]),
  ("traceql/transpiler/simple_tags_v2_processor.go:SimpleTagsV2RequestProcessor.Process#1",
   [⟨"close", "SimpleTagsV2RequestProcessor.Process#1", "close(cRes)",
      .ownChannel⟩]),
  ("utils/dbVersion/version.go:throttle#1",
   []),
  ("utils/logger/logger.go:qrynFormatter.Run#1",
   [⟨"errdrop", "qrynFormatter.Run#1", "strValue, _ := q.formatter.Format(e)",
      .harmless "process-lifetime log shipper, not started by a request: a nil/empty result is tested (`req == nil`) or only shipped"⟩,
    ⟨"errdrop", "qrynFormatter.Run#1", "strStreams, _ := json.Marshal(map[string][]*qrynLogs{\"streams\": arrStreams})",
      .harmless "process-lifetime log shipper, not started by a request: a nil/empty result is tested (`req == nil`) or only shipped"⟩]),
  ("utils/logger/logger.go:qrynFormatter.Run#2",
   [⟨"errdrop", "qrynFormatter.Run#2", "req, _ := http.NewRequest(\"POST\", q.url, bytes.NewReader(strStreams))",
      .harmless "process-lifetime log shipper, not started by a request: a nil/empty result is tested (`req == nil`) or only shipped"⟩]),
  ("watchdog/watchdog.go:Init#1",
   [⟨"panic", "Init#1", "panic(\"WATCHDOG PANIC: database not responding\")",
      .deliberate "the watchdog ends the process when ClickHouse has not answered 6 pings in a row (restart by the supervisor); independent of any request"⟩])

 ]

/-- the library calls made on the stacks of the un-recovered goroutines, each with the reason it is trusted not to
    panic (this is the boundary of the census: nothing behind these names is analysed) -/
def reviewedExterns : List (String × String) :=
  [
   ("(jsoniter.Stream).WriteMore", "jsoniter stream writer: appends to its buffer"),
   ("(jsoniter.Stream).WriteObjectEnd", "jsoniter stream writer"),
   ("(jsoniter.Stream).WriteObjectField", "jsoniter stream writer"),
   ("(jsoniter.Stream).WriteObjectStart", "jsoniter stream writer"),
   ("(jsoniter.Stream).WriteString", "jsoniter stream writer: escapes any byte sequence"),
   ("(model.IWatcher).GetRes", "Watcher.GetRes: returns the channel field"),
   ("(sql.Rows).Close", "database/sql: idempotent"),
   ("(sql.Rows).Next", "database/sql"),
   ("(sql.Rows).Scan", "database/sql: conversion failures are returned as errors (explored with corrupt rows)"),
   ("?.BorrowStream", "jsoniter.ConfigFastest.BorrowStream(nil): pool"),
   ("?.Buffer", "jsoniter.Stream.Buffer"),
   ("?.Close", "rows.Close (database/sql, idempotent); the same-package Watcher.Close is walked as well"),
   ("?.Do", "http.DefaultClient.Do in the log shipper (not started by a request)"),
   ("?.Done", "ctx.Done() / Watcher.Done(): returns a channel"),
   ("?.Format", "logrus formatter in the log shipper (not started by a request)"),
   ("?.Lock", "sync.Mutex"),
   ("?.Next", "rows.Next (database/sql)"),
   ("?.Ping", "ServiceData.Ping in the watchdog (not started by a request)"),
   ("?.ReadMessage", "gorilla/websocket read loop of the Tail handler: errors end the loop"),
   ("?.Reset", "jsoniter.Stream.Reset(nil)"),
   ("?.ReturnStream", "jsoniter pool"),
   ("?.Scan", "rows.Scan (database/sql): conversion failures are returned as errors"),
   ("?.Set", "http.Header.Set in the log shipper"),
   ("?.String", "logrus.Level.String"),
   ("?.UnixNano", "time.Time.UnixNano"),
   ("?.Unlock", "sync.Mutex: every Unlock follows its Lock in the same block"),
   ("?.WriteArrayEnd", "jsoniter stream writer"),
   ("?.WriteArrayStart", "jsoniter stream writer"),
   ("?.WriteInt64", "jsoniter stream writer"),
   ("?.WriteMore", "jsoniter stream writer"),
   ("?.WriteObjectEnd", "jsoniter stream writer"),
   ("?.WriteObjectField", "jsoniter stream writer"),
   ("?.WriteObjectStart", "jsoniter stream writer"),
   ("?.WriteRaw", "jsoniter stream writer"),
   ("?.WriteString", "jsoniter stream writer"),
   ("?.cancel", "Watcher.cancel (a context.CancelFunc), reached through the by-name match of rows.Close with Watcher.Close"),
   ("atomic.StoreInt32", "sync/atomic on a package variable"),
   ("bytes.NewReader", "total"),
   ("fmt.Println", "total"),
   ("fmt.Sprintf", "total (a bad verb prints %!v, never panics; arguments are ints, floats, strings)"),
   ("http.NewRequest", "log shipper: error dropped, nil request tested"),
   ("json.Marshal", "encoding/json on a string / on maps of strings: no error possible, never panics"),
   ("logger.Error", "reader/utils/logger → logrus"),
   ("logger.Info", "reader/utils/logger → logrus"),
   ("sort.Slice", "calls less with indexes in range"),
   ("strconv.FormatFloat", "total for fmt 'f', precision -1, bitSize 64"),
   ("strconv.FormatInt", "total for base 10"),
   ("strconv.ParseInt", "errors returned"),
   ("strings.Contains", "total"),
   ("strings.TrimSuffix", "total"),
   ("time.Now", "total"),
   ("time.Sleep", "total")
  ]

abbrev Site := String × String × String × List String
abbrev Goroutine := String × String × Bool × List Site × List String

/-- the regenerated goroutines that have no recover of their own -/
def unrecovered : List Goroutine := Gen.ReadGoroutines.goroutines.filter (fun g => !g.2.2.1)

/-- is the classification backed by what the translator found at the site? -/
def Why.backed : Why → List String → Bool
  | .guarded c, guards => guards.contains c
  | .ownChannel, guards => guards.contains "@sole-close"
  | _, _ => true

/-- site list and review agree entry by entry -/
def sitesMatch : List Site → List Entry → Bool
  | [], [] => true
  | (k, f, t, gs) :: ss, e :: es => k == e.kind && f == e.fn && t == e.text && e.why.backed gs && sitesMatch ss es
  | _, _ => false

def censusMatches : List Goroutine → List (String × List Entry) → Bool
  | [], [] => true
  | (n, _, _, ss, _) :: gs, (m, es) :: rs => n == m && sitesMatch ss es && censusMatches gs rs
  | _, _ => false

/-- a send that is one of the alternatives of a `select` with a `<-….Done()` alternative (marker set by the translator) -/
def selectGuarded (guards : List String) : Bool := guards.contains "@select-done"

/-- (goroutine, number of sends, number of them that are select-guarded by a Done channel) -/
def sendProfile (g : Goroutine) : String × Nat × Nat :=
  let sends := g.2.2.2.1.filter (fun s => s.1 == "send")
  (g.1, sends.length, (sends.filter (fun s => selectGuarded s.2.2.2)).length)

end Qryn.ReadSide.Census
