/-! # Read side: the channel pipeline as a small process algebra (C12)

Every LogQL request runs as a chain of goroutines connected by *unbuffered* channels:

    scanner (Scan/ScanMatrix) → stage₀ → … → stageₙ₋₂ → exporter (stageₙ₋₁) → HTTP handler

* the scanner (`shared/planner_clickhouse_getter.go`) sends batches and closes its channel; it stops early when the
  context is cancelled (limit reached: `LimitPlanner` calls `CancelCtx`; client gone: net/http cancels the request
  context) or when the database fails midway — the environment move `cancel`: the batches not yet started are
  dropped, but the scanner always ends with one more send (the partial batch, the `io.EOF` entry or the error
  entry), the last element of `src`;
* a stage (`internal_planner/planner_generic.go WrapProcess`, `FixPeriodPlanner`, the exporters of
  `service/queryRangeService.go`) is `recv* ; (send | drain)`: it receives a batch, sends what the batch makes it
  produce, and when it stops after an error it hands its input to a drainer (`onErr`, the deferred drains);
* the HTTP handler (`for str := range ch { w.Write(…) }`) ignores write errors and therefore receives until close.

What a batch makes the *next* stage do is part of the batch (`Item`): how many batches it produces there (each with
its own future) and whether it is an error there. Quantifying over all items quantifies over all behaviours of the
stages' callbacks and all result sets. Sends are rendezvous: a send is enabled only when the receiver is at its
receive. Closing never blocks. Core-only. -/
namespace Qryn.ReadSide.Pipe

/-- a batch together with what it causes downstream -/
inductive Item where
  | mk (err : Bool) (kids : List Item)

mutual
/-- number of sends this item stands for, itself included -/
def Item.size : Item → Nat
  | .mk _ ks => 1 + sizeL ks
def sizeL : List Item → Nat
  | [] => 0
  | k :: ks => k.size + sizeL ks
end

structure Stg where
  buf : List Item      -- batches it still has to send before it receives again
  flush : List Item    -- what it sends once its input is closed (`OnAfterEntries`, the closing brackets)
  stopped : Bool       -- it met an error: no further output
  inClosed : Bool      -- it has seen its input closed (its reader — itself or its drainer — has returned)
  outClosed : Bool     -- it has closed its output
  drains : Bool        -- code property: after stopping, its input is still consumed until close

/-- receiving one batch -/
def Stg.recv (s : Stg) : Item → Stg
  | .mk err kids =>
    if s.stopped then s
    else if err then { s with buf := kids, flush := [], stopped := true }
    else { s with buf := kids }

/-- at its receive statement (a stopped stage only if a drainer took over) -/
def Stg.ready (s : Stg) : Prop := s.buf = [] ∧ s.inClosed = false ∧ (s.stopped = false ∨ s.drains = true)

def Stg.setBuf (s : Stg) (b : List Item) : Stg := { s with buf := b }
def Stg.closeOut (s : Stg) : Stg := { s with outClosed := true }

/-- seeing the input closed -/
def Stg.onClose (s : Stg) : Stg :=
  if s.stopped then { s with inClosed := true } else { s with inClosed := true, buf := s.flush, flush := [] }

structure Sys where
  n : Nat              -- stages 0 … n-1; the consumer of stage n-1 is the HTTP handler
  stg : Nat → Stg
  src : List Item      -- batches the scanner still has to send
  srcClosed : Bool

def upd (f : Nat → Stg) (i : Nat) (s : Stg) : Nat → Stg := fun j => if j = i then s else f j

/-- the channel feeding stage `i` is closed -/
def Sys.upClosed (S : Sys) (i : Nat) : Prop :=
  match i with
  | 0 => S.srcClosed = true
  | j + 1 => (S.stg j).outClosed = true

/-- one move of one goroutine (or of the environment) -/
inductive Step : Sys → Sys → Prop
  | srcSend (S : Sys) (it : Item) (rest : List Item) :
      S.src = it :: rest → 0 < S.n → (S.stg 0).ready →
      Step S { S with src := rest, stg := upd S.stg 0 ((S.stg 0).recv it) }
  | cancel (S : Sys) (k : Nat) :
      k + 1 < S.src.length → Step S { S with src := S.src.take k ++ S.src.drop (S.src.length - 1) }
  | srcClose (S : Sys) :
      S.src = [] → S.srcClosed = false → Step S { S with srcClosed := true }
  | seeClose (S : Sys) (i : Nat) :
      i < S.n → (S.stg i).ready → S.upClosed i →
      Step S { S with stg := upd S.stg i (S.stg i).onClose }
  | send (S : Sys) (i : Nat) (it : Item) (rest : List Item) :
      i + 1 < S.n → (S.stg i).buf = it :: rest → (S.stg (i + 1)).ready →
      Step S { S with stg := upd (upd S.stg i ((S.stg i).setBuf rest)) (i + 1) ((S.stg (i + 1)).recv it) }
  | sendLast (S : Sys) (i : Nat) (it : Item) (rest : List Item) :
      i + 1 = S.n → (S.stg i).buf = it :: rest →
      Step S { S with stg := upd S.stg i ((S.stg i).setBuf rest) }
  | close (S : Sys) (i : Nat) :
      i < S.n → (S.stg i).buf = [] → (S.stg i).outClosed = false →
      ((S.stg i).stopped = true ∨ (S.stg i).inClosed = true) →
      Step S { S with stg := upd S.stg i (S.stg i).closeOut }

/-- every goroutine has returned, every channel is closed -/
def Final (S : Sys) : Prop :=
  S.src = [] ∧ S.srcClosed = true ∧
  ∀ i, i < S.n → (S.stg i).buf = [] ∧ (S.stg i).inClosed = true ∧ (S.stg i).outClosed = true

inductive Run : Sys → Sys → Prop
  | refl (S : Sys) : Run S S
  | step {S S' S'' : Sys} : Step S S' → Run S' S'' → Run S S''

/-- the start of a request: `rows` to scan, stage `i` with its closing output `flush i`;
    `drains i` says whether the code of stage `i` keeps its input consumed after it stops -/
def start (n : Nat) (rows : List Item) (flush : Nat → List Item) (drains : Nat → Bool) : Sys :=
  { n := n, src := rows, srcClosed := false,
    stg := fun i => { buf := [], flush := flush i, stopped := false, inClosed := false, outClosed := false, drains := drains i } }

def sumTo : Nat → (Nat → Nat) → Nat
  | 0, _ => 0
  | n + 1, f => sumTo n f + f n

def Stg.weight (s : Stg) : Nat :=
  sizeL s.buf + sizeL s.flush + (if s.inClosed then 0 else 1) + (if s.outClosed then 0 else 1)

/-- an upper bound on the number of moves still possible -/
def Sys.measure (S : Sys) : Nat :=
  sizeL S.src + (if S.srcClosed then 0 else 1) + sumTo S.n (fun i => (S.stg i).weight)

/-- what holds in every state of a request whose stages all keep their input consumed -/
structure Inv (S : Sys) : Prop where
  pos : 0 < S.n
  closedEmpty : ∀ i, i < S.n → (S.stg i).outClosed = true → (S.stg i).buf = []
  outStop : ∀ i, i < S.n → (S.stg i).outClosed = true → (S.stg i).stopped = true ∨ (S.stg i).inClosed = true
  inAfterOut : ∀ i, i + 1 < S.n → (S.stg (i + 1)).inClosed = true → (S.stg i).outClosed = true
  in0 : (S.stg 0).inClosed = true → S.srcClosed = true
  srcEmpty : S.srcClosed = true → S.src = []
  drains : ∀ i, i < S.n → (S.stg i).drains = true

end Qryn.ReadSide.Pipe
